package main

// C01 end-to-end suite "e2e-strval": STRING arguments that are VALUES, not condition templates.
//
// Statement.BuildCondition looks at the TEXT of a sole string argument: strconv.Atoi succeeds => the string is a primary
// key VALUE (`WHERE tbl.pk = ?`, the string itself bound verbatim: "-5", "+7", "00501" stay strings); Atoi fails => the
// string is a condition TEMPLATE (documented: its text is SQL).  The suite varies
//   * the spelling of the string (sign, leading zeros, int64 limits / blanks, hex, exponent, `_`, non-ASCII digits,
//     int64 overflow, empty, lone sign, UUID, comment / quote carrying texts),
//   * the position: inline condition of First/Take/Last/Find/Delete/FirstOrInit/FirstOrCreate; Where/Not/Or/Having(s);
//     key string + further arguments (`IN (?,?)`); string SLICES / `pk = ?` / map values (never inspected textually);
//     name positions Select/Order/Group/Pluck column (text by design, contribute no value),
//   * the key kind of the model (uint, soft-delete, signed int64, string key, renamed key column),
//   * the context (plain, kept handle used by two finishers, Session{PrepareStmt}, nested Transaction),
// each combined with 0-2 ordinary marker conditions before / after, so that the alignment of the other values is judged.
//
// Judge: the unchanged c01Judge (+ c01JudgeDry): no marker in the text, lexer-counted placeholders = len(args) (`$1..$n`
// in order), args = the generator's left-to-right flattening.  Key strings are built around a marker int, so a key that
// becomes SQL text is seen by rule (1) as well as by rule (3).
//
// Class oracle: c01SvIsKey (own implementation: optional single sign, 1+ ASCII digits, int64 range), cross-checked
// against strconv.Atoi once per case (a disagreement is only noted: it would mean a 32-bit int platform).
//
// Latitude:
//   * NOT-KEY sole string: EITHER no bound value for it (the documented template reading) OR the exact string bound as one
//     value (a change that binds more is not a violation of "values never become text").  Implemented as two expected
//     flattenings; a violation needs both verdicts bad.
//   * a database error (weird template text, `ORDER BY -5`, ...) is not judged; text / values at the driver still are.
//   * ErrMissingWhereClause (Delete / Update whose only condition is the empty template): no statement reaches the
//     driver; c01Judge does not demand one.
//   * FirstOrCreate may INSERT a record after its SELECT: the INSERT is judged on text / placeholder count only (ExtraOK).
//   * Having is combined with query finishers only (Update / Delete do not build GROUP BY).
//   * a leading Or is re-ordered by Where.Build: Or(s) always follows a Where; ordinary conditions are Where / Not only.
//   * a kept handle is made re-usable with Session(&gorm.Session{}) (the documented way).

import (
	"encoding/json"
	"fmt"
	"math/big"
	"math/rand"
	"os"
	"strconv"
	"strings"
	"time"

	"gorm.io/gorm"
)

type C01SvNeg struct {
	ID   int64 `gorm:"primaryKey;autoIncrement:false"`
	Name string
	Age  int
}

type C01SvCode struct {
	Code string `gorm:"primaryKey"`
	Name string
}

type C01SvRen struct {
	Key  int64 `gorm:"primaryKey;column:k"`
	Name string
}

// c01SvIsKey: the documented class "the string is a number" = optional single leading sign, one or more ASCII digits,
// value inside [-2^63, 2^63-1]
func c01SvIsKey(s string) bool {
	t, neg := s, false
	if len(t) > 0 && (t[0] == '+' || t[0] == '-') {
		neg = t[0] == '-'
		t = t[1:]
	}
	if t == "" {
		return false
	}
	for i := 0; i < len(t); i++ {
		if t[i] < '0' || t[i] > '9' {
			return false
		}
	}
	v, ok := new(big.Int).SetString(t, 10)
	if !ok {
		return false
	}
	if neg {
		v.Neg(v)
	}
	return v.IsInt64()
}

type c01SvSpell struct {
	name string
	mk   func(n int) string
}

// marker carrying key spellings (n is a marker int)
var c01SvKeyMarked = []c01SvSpell{
	{"n", func(n int) string { return fmt.Sprint(n) }},
	{"-n", func(n int) string { return fmt.Sprint("-", n) }},
	{"-n", func(n int) string { return fmt.Sprint("-", n) }},
	{"+n", func(n int) string { return fmt.Sprint("+", n) }},
	{"+n", func(n int) string { return fmt.Sprint("+", n) }},
	{"000n", func(n int) string { return fmt.Sprint("000", n) }},
	{"-000n", func(n int) string { return fmt.Sprint("-000", n) }},
	{"+0n", func(n int) string { return fmt.Sprint("+0", n) }},
	{"-n000 (13 digits)", func(n int) string { return fmt.Sprint("-", n, "0000000") }},
}

var c01SvKeyFixed = []string{"+0", "-0", "0", "00", "9223372036854775807", "-9223372036854775808", "+9223372036854775807",
	"-5", "+7", "00501", "-00", "+000000000000000000000000000001", "-000000000000000000009223372036854775808"}

// not-key spellings: small fixed numbers, no marker digits (as sole argument they are SQL text by design)
var c01SvNotKey = []string{" 5", "5 ", "\t5", "5\n", "0x10", "0X1f", "0b11", "0o17", "1e3", "1E3", "1_000", "１２", "٣", "−5",
	"9223372036854775808", "-9223372036854775809", "+9223372036854775808", "18446744073709551615", "99999999999999999999999",
	"-99999999999999999999999", "", "+", "-", "+-5", "--5", "-+5", "++5", "5-", "5+", "5.0", ".5", "5.", "+ 5", "- 5",
	"1b9d6bcd-bbfd-4b2d-9b5d-ab8dfbbd4bed", "123e4567-e89b-12d3-a456-426614174000", "1;2", "1 -- x", "1 /* x */", "'5'", "\"5\"",
	"NaN", "Inf", "5abc", "abc", "0x", "1,2", "(5)", "5 5"}

type c01SvModel struct {
	name      string
	pk        string
	hasAge    bool
	soft      bool
	updatedAt bool
	one       func() interface{}
	many      func() interface{}
}

var c01SvModels = []*c01SvModel{
	{"VUser", "id", true, false, true, func() interface{} { return &VUser{} }, func() interface{} { return &[]VUser{} }},
	{"VUser", "id", true, false, true, func() interface{} { return &VUser{} }, func() interface{} { return &[]VUser{} }},
	{"VSoft", "id", true, true, false, func() interface{} { return &VSoft{} }, func() interface{} { return &[]VSoft{} }},
	{"C01SvNeg", "id", true, false, false, func() interface{} { return &C01SvNeg{} }, func() interface{} { return &[]C01SvNeg{} }},
	{"C01SvNeg", "id", true, false, false, func() interface{} { return &C01SvNeg{} }, func() interface{} { return &[]C01SvNeg{} }},
	{"C01SvCode", "code", false, false, false, func() interface{} { return &C01SvCode{} }, func() interface{} { return &[]C01SvCode{} }},
	{"C01SvCode", "code", false, false, false, func() interface{} { return &C01SvCode{} }, func() interface{} { return &[]C01SvCode{} }},
	{"C01SvRen", "k", false, false, false, func() interface{} { return &C01SvRen{} }, func() interface{} { return &[]C01SvRen{} }},
}

func c01SvOpen(dialect string) (*gorm.DB, *Recorder) {
	db, rec := c01OpenSqlite(dialect)
	if err := db.AutoMigrate(&C01SvNeg{}, &C01SvCode{}, &C01SvRen{}); err != nil {
		panic(err)
	}
	for i, id := range []int64{-700026, -501, -5, -1, 0, 1, 7, 501} {
		db.Create(&C01SvNeg{ID: id, Name: fmt.Sprint("n", i%3), Age: 20 + i})
	}
	for i, code := range []string{"00501", "-5", "+7", "7", "0", "-0", "abc", "1b9d6bcd-bbfd-4b2d-9b5d-ab8dfbbd4bed"} {
		db.Create(&C01SvCode{Code: code, Name: fmt.Sprint("n", i%3)})
	}
	for i := 1; i <= 6; i++ {
		db.Create(&C01SvRen{Key: int64(i), Name: fmt.Sprint("n", i%3)})
	}
	rec.Reset()
	return db, rec
}

type c01SvCase struct {
	*c01Case
	Alt    []c01Expect // second accepted flattening (NOT-KEY latitude); nil = none
	S      string      // the string under test
	Key    bool
	Single bool // S is the sole argument of its position (class decides value / template)
	Pos    string
	Spell  string
	Model  string
	Ctx    string
}

// c01SvPick: one spelling; key=true a KEY class string, else a NOT-KEY class string
func c01SvPick(rng *rand.Rand, m *markerGen, key bool) (string, string) {
	if !key {
		s := c01SvNotKey[rng.Intn(len(c01SvNotKey))]
		return s, fmt.Sprintf("%q", s)
	}
	if rng.Intn(20) < 13 {
		sp := c01SvKeyMarked[rng.Intn(len(c01SvKeyMarked))]
		return sp.mk(m.I()), sp.name
	}
	s := c01SvKeyFixed[rng.Intn(len(c01SvKeyFixed))]
	return s, fmt.Sprintf("%q", s)
}

func c01SvClass(key bool) string {
	if key {
		return "key"
	}
	return "not-key"
}

// c01SvOrd: one ordinary condition with marker values (Where / Not only)
func c01SvOrd(rng *rand.Rand, m *markerGen, mod *c01SvModel) c01Step {
	k := rng.Intn(6)
	if !mod.hasAge && (k == 1 || k == 4) {
		k = 3
	}
	switch k {
	case 0:
		s := m.S()
		return c01Step{`Where("name <> ?", S)`, "where", []interface{}{s}, func(d *gorm.DB) *gorm.DB { return d.Where("name <> ?", s) }}
	case 1:
		a := m.I()
		return c01Step{`Where("age > ?", I)`, "where", []interface{}{a}, func(d *gorm.DB) *gorm.DB { return d.Where("age > ?", a) }}
	case 2:
		s := m.S()
		return c01Step{`Not("name = ?", S)`, "where", []interface{}{s}, func(d *gorm.DB) *gorm.DB { return d.Not("name = ?", s) }}
	case 3:
		a, b := m.S(), m.S()
		return c01Step{`Where("name NOT IN ?", []string{S,S})`, "where", []interface{}{a, b}, func(d *gorm.DB) *gorm.DB {
			return d.Where("name NOT IN ?", []string{a, b})
		}}
	case 4:
		a, s := m.I(), m.S()
		return c01Step{`Where(map{age: I, name: S})`, "where", []interface{}{a, s}, func(d *gorm.DB) *gorm.DB {
			return d.Where(map[string]interface{}{"age": a, "name": s})
		}}
	default:
		s := m.S()
		return c01Step{`Where(map{name: S})`, "where", []interface{}{s}, func(d *gorm.DB) *gorm.DB {
			return d.Where(map[string]interface{}{"name": s})
		}}
	}
}

func c01SvFinish(h *gorm.DB, mod *c01SvModel, fin string, inline []interface{}, upd string, col string) *gorm.DB {
	switch fin {
	case "First":
		return h.First(mod.one(), inline...)
	case "Take":
		return h.Take(mod.one(), inline...)
	case "Last":
		return h.Last(mod.one(), inline...)
	case "Find":
		return h.Find(mod.many(), inline...)
	case "FirstOrInit":
		return h.FirstOrInit(mod.one(), inline...)
	case "FirstOrCreate":
		return h.FirstOrCreate(mod.one(), inline...)
	case "Delete":
		return h.Delete(mod.one(), inline...)
	case "Count":
		var n int64
		return h.Count(&n)
	case "Update":
		return h.Update("name", upd)
	case "Pluck":
		var ns []string
		return h.Pluck(col, &ns)
	case "Scan":
		var rs []map[string]interface{}
		return h.Scan(&rs)
	default: // Rows
		rows, err := h.Rows()
		if err == nil && rows != nil {
			rows.Close()
		}
		return h
	}
}

func c01SvCat(parts ...[]interface{}) []interface{} {
	out := []interface{}{}
	for _, p := range parts {
		out = append(out, p...)
	}
	return out
}

// c01SvGen builds one case from its own seed
func c01SvGen(seed int64, db *gorm.DB) *c01SvCase {
	rng := rand.New(rand.NewSource(seed))
	m := &markerGen{}
	mod := c01SvModels[rng.Intn(len(c01SvModels))]
	sc := &c01SvCase{c01Case: &c01Case{M: m}, Model: mod.name}
	c := sc.c01Case

	ctx := "plain"
	switch r := rng.Intn(10); {
	case r < 2:
		ctx = "kept"
	case r < 4:
		ctx = "prep"
	case r < 6:
		ctx = "tx"
	}
	unscoped := rng.Intn(4) == 0

	var pre, post []c01Step
	for i, n := 0, rng.Intn(3); i < n; i++ {
		pre = append(pre, c01SvOrd(rng, m, mod))
	}

	// ---- the position under test -------------------------------------------------------------------------------
	var (
		focus     *c01Step      // chain step (nil: inline / text-only position)
		inline    []interface{} // inline conditions of the finisher
		fbound    []interface{} // values the position binds (expected flattening A)
		falt      []interface{} // flattening B of the position (NOT-KEY latitude); nil = none
		hasAlt    bool
		inHaving  bool
		fins      []string
		pluckCol  = "name"
		focusDesc string
	)
	chainFins := []string{"Find", "Find", "Count", "Update", "Delete", "Pluck", "Scan", "Rows", "First", "Take", "Last"}
	queryFins := []string{"Find", "Scan", "Rows", "Pluck", "Count", "Take"}
	single := func() string { // a sole string: class decides
		key := rng.Intn(10) < 6
		s, sp := c01SvPick(rng, m, key)
		sc.S, sc.Spell, sc.Single = s, sp, true
		if key {
			fbound = []interface{}{s}
		} else {
			fbound, falt, hasAlt = []interface{}{}, []interface{}{s}, true
		}
		return s
	}
	anyStr := func() string { // a string in a position that never looks at its text
		key := rng.Intn(2) == 0
		s, sp := c01SvPick(rng, m, key)
		if rng.Intn(6) == 0 {
			s, sp = m.S(), "marker-string"
		}
		if sc.S == "" && sc.Spell == "" {
			sc.S, sc.Spell = s, sp
		}
		return s
	}
	pos := rng.Intn(100)
	switch {
	case pos < 30: // inline condition of a finisher, sole string
		fin := []string{"First", "Take", "Last", "Find", "Find", "Delete", "Delete", "FirstOrInit", "FirstOrCreate"}[rng.Intn(9)]
		s := single()
		inline = []interface{}{s}
		fins = []string{fin}
		sc.Pos = "inline-" + fin
		focusDesc = fmt.Sprintf("%s(&%s{}, %q)", fin, mod.name, s)
	case pos < 38: // key string + further arguments: IN (?,?..)
		fin := []string{"First", "Find", "Find", "Delete", "Take", "FirstOrInit"}[rng.Intn(6)]
		k1, sp := c01SvPick(rng, m, true)
		sc.S, sc.Spell = k1, sp
		inline = []interface{}{k1}
		ds := []string{fmt.Sprintf("%q", k1)}
		for i, n := 0, 1+rng.Intn(2); i < n; i++ {
			if rng.Intn(3) == 0 {
				a := m.I()
				if rng.Intn(2) == 0 {
					a = -a
				}
				inline = append(inline, a)
				ds = append(ds, fmt.Sprint(a))
			} else {
				s := anyStr()
				inline = append(inline, s)
				ds = append(ds, fmt.Sprintf("%q", s))
			}
		}
		fbound = append([]interface{}{}, inline...)
		fins = []string{fin}
		sc.Pos = "inline-key+args"
		focusDesc = fmt.Sprintf("%s(&%s{}, %s)", fin, mod.name, strings.Join(ds, ", "))
	case pos < 44: // inline string slice
		fin := []string{"First", "Find", "Find", "Delete", "Last"}[rng.Intn(5)]
		var ss []string
		for i, n := 0, 1+rng.Intn(3); i < n; i++ {
			ss = append(ss, anyStr())
		}
		inline = []interface{}{ss}
		for _, s := range ss {
			fbound = append(fbound, s)
		}
		fins = []string{fin}
		sc.Pos = "inline-[]string"
		focusDesc = fmt.Sprintf("%s(&%s{}, %q)", fin, mod.name, ss)
	case pos < 60: // template + string argument(s): never inspected
		fins = []string{chainFins[rng.Intn(len(chainFins))]}
		switch rng.Intn(6) {
		case 0:
			var ss []string
			for i, n := 0, 1+rng.Intn(3); i < n; i++ {
				ss = append(ss, anyStr())
			}
			for _, s := range ss {
				fbound = append(fbound, s)
			}
			q := mod.pk + " IN ?"
			focus = &c01Step{fmt.Sprintf("Where(%q, %q)", q, ss), "where", fbound, func(d *gorm.DB) *gorm.DB { return d.Where(q, ss) }}
			sc.Pos = "Where(pk IN ?, []string)"
		case 1:
			s := anyStr()
			q := mod.pk + " = ?"
			fbound = []interface{}{s}
			focus = &c01Step{fmt.Sprintf("Where(%q, %q)", q, s), "where", fbound, func(d *gorm.DB) *gorm.DB { return d.Where(q, s) }}
			sc.Pos = "Where(pk = ?, s)"
		case 2:
			s := anyStr()
			fbound = []interface{}{s}
			focus = &c01Step{fmt.Sprintf("Where(map[string]interface{}{%q: %q})", mod.pk, s), "where", fbound, func(d *gorm.DB) *gorm.DB {
				return d.Where(map[string]interface{}{mod.pk: s})
			}}
			sc.Pos = "Where(map{pk: s})"
		case 3:
			s := anyStr()
			fbound = []interface{}{s}
			focus = &c01Step{fmt.Sprintf("Where(map[string]string{%q: %q})", mod.pk, s), "where", fbound, func(d *gorm.DB) *gorm.DB {
				return d.Where(map[string]string{mod.pk: s})
			}}
			sc.Pos = "Where(map[string]string{pk: s})"
		case 4:
			s := anyStr()
			fbound = []interface{}{s}
			focus = &c01Step{fmt.Sprintf("Not(%q, %q)", "name = ?", s), "where", fbound, func(d *gorm.DB) *gorm.DB { return d.Not("name = ?", s) }}
			sc.Pos = "Not(name = ?, s)"
		default:
			s := anyStr()
			fbound = []interface{}{s}
			focus = &c01Step{fmt.Sprintf("Where(%q, %q)", "name = ?", s), "where", fbound, func(d *gorm.DB) *gorm.DB { return d.Where("name = ?", s) }}
			sc.Pos = "Where(name = ?, s)"
		}
		focusDesc = focus.Desc
	case pos < 90: // chain method, sole string
		s := single()
		switch k := rng.Intn(10); {
		case k < 4:
			focus = &c01Step{fmt.Sprintf("Where(%q)", s), "where", nil, func(d *gorm.DB) *gorm.DB { return d.Where(s) }}
			sc.Pos = "Where(s)"
			fins = []string{chainFins[rng.Intn(len(chainFins))]}
		case k < 6:
			focus = &c01Step{fmt.Sprintf("Not(%q)", s), "where", nil, func(d *gorm.DB) *gorm.DB { return d.Not(s) }}
			sc.Pos = "Not(s)"
			fins = []string{chainFins[rng.Intn(len(chainFins))]}
		case k < 8:
			if len(pre) == 0 {
				pre = append(pre, c01SvOrd(rng, m, mod))
			}
			focus = &c01Step{fmt.Sprintf("Or(%q)", s), "where", nil, func(d *gorm.DB) *gorm.DB { return d.Or(s) }}
			sc.Pos = "Or(s)"
			fins = []string{chainFins[rng.Intn(len(chainFins))]}
		default:
			focus = &c01Step{fmt.Sprintf("Group(\"name\").Having(%q)", s), "having", nil, func(d *gorm.DB) *gorm.DB { return d.Group("name").Having(s) }}
			sc.Pos = "Having(s)"
			inHaving = true
			fins = []string{queryFins[rng.Intn(len(queryFins))]}
		}
		focusDesc = focus.Desc
	default: // name positions: text by design, no value; the Where values around them stay aligned
		t := []string{"5", "-5", "+7", "0", "1"}[rng.Intn(5)]
		sc.S, sc.Spell = t, fmt.Sprintf("%q", t)
		fbound = []interface{}{}
		if len(pre) == 0 {
			pre = append(pre, c01SvOrd(rng, m, mod))
		}
		fins = []string{[]string{"Find", "Scan", "Rows", "Take"}[rng.Intn(4)]}
		switch rng.Intn(4) {
		case 0:
			focus = &c01Step{fmt.Sprintf("Select(%q)", t), "none", nil, func(d *gorm.DB) *gorm.DB { return d.Select(t) }}
			sc.Pos = "Select(text)"
		case 1:
			focus = &c01Step{fmt.Sprintf("Order(%q)", t), "none", nil, func(d *gorm.DB) *gorm.DB { return d.Order(t) }}
			sc.Pos = "Order(text)"
		case 2:
			focus = &c01Step{fmt.Sprintf("Group(%q)", t), "none", nil, func(d *gorm.DB) *gorm.DB { return d.Group(t) }}
			sc.Pos = "Group(text)"
		default:
			pluckCol = t
			fins = []string{"Pluck"}
			sc.Pos = "Pluck(text)"
			focusDesc = fmt.Sprintf("Pluck column %q", t)
		}
		if focus != nil {
			focusDesc = focus.Desc
		}
	}
	sc.Key = c01SvIsKey(sc.S)
	for i, n := 0, rng.Intn(3); i < n; i++ {
		post = append(post, c01SvOrd(rng, m, mod))
	}
	if ctx == "kept" {
		switch {
		case fins[0] == "FirstOrCreate":
			ctx = "plain"
		case len(inline) > 0:
			fins = []string{fins[0], fins[0]}
		case inHaving || pos >= 90: // name positions: Select / Group change what Update / Count build - keep to queries
			fins = []string{fins[0], "Find"}
		default:
			fins = []string{fins[0], []string{"Count", "Find", "First", "Delete", "Update"}[rng.Intn(5)]}
		}
	}
	sc.Ctx = ctx
	upd := ""
	for _, f := range fins {
		if f == "Update" {
			upd = m.S()
		}
	}

	// ---- chain + description -----------------------------------------------------------------------------------
	steps := append([]c01Step{}, pre...)
	if focus != nil {
		steps = append(steps, *focus)
	}
	steps = append(steps, post...)
	c.Desc = append(c.Desc, "Model(&"+mod.name+"{})")
	c.Desc = append(c.Desc, c01Descs(steps)...)
	if unscoped {
		c.Desc = append(c.Desc, "Unscoped()")
	}
	if focus == nil {
		c.Desc = append(c.Desc, focusDesc)
	}
	if sc.S != "" || sc.Single {
		c.Desc = append(c.Desc, fmt.Sprintf("string under test %q class %s position %s", sc.S, c01SvClass(sc.Key), sc.Pos))
	}
	c.Desc = append(c.Desc, "context "+ctx, "finishers "+strings.Join(fins, ","))
	c.Fin = strings.Join(fins, "+")

	// ---- expected flattening -----------------------------------------------------------------------------------
	var preArgs, postArgs []interface{}
	for _, s := range pre {
		preArgs = append(preArgs, s.Args...)
	}
	for _, s := range post {
		postArgs = append(postArgs, s.Args...)
	}
	assemble := func(fb []interface{}) []c01Expect {
		var where, having []interface{}
		switch {
		case inHaving:
			where, having = c01SvCat(preArgs, postArgs), fb
		case len(inline) > 0:
			where = c01SvCat(preArgs, postArgs, fb) // inline conditions follow the chain's conditions
		default:
			where = c01SvCat(preArgs, fb, postArgs)
		}
		var out []c01Expect
		for _, f := range fins {
			switch f {
			case "Update":
				set := []interface{}{upd}
				if mod.updatedAt {
					set = append(set, nowArg())
				}
				out = append(out, c01Expect{"UPDATE", c01NormAll(c01SvCat(set, where))})
			case "Delete":
				if mod.soft && !unscoped {
					out = append(out, c01Expect{"UPDATE", c01NormAll(c01SvCat([]interface{}{nowArg()}, where))})
				} else {
					out = append(out, c01Expect{"DELETE", c01NormAll(where)})
				}
			default:
				out = append(out, c01Expect{"SELECT", c01NormAll(c01SvCat(where, having))})
			}
		}
		return out
	}
	c.Expect = assemble(fbound)
	if hasAlt {
		sc.Alt = assemble(falt)
	}
	c.ExtraOK = fins[0] == "FirstOrCreate"

	// ---- run ---------------------------------------------------------------------------------------------------
	c.Run = func(d *gorm.DB) *gorm.DB {
		body := func(b *gorm.DB) *gorm.DB {
			h := c01Apply(b.Model(mod.one()), steps)
			if unscoped {
				h = h.Unscoped()
			}
			if ctx == "kept" {
				h = h.Session(&gorm.Session{})
				r1 := c01SvFinish(h, mod, fins[0], inline, upd, pluckCol)
				r2 := c01SvFinish(h, mod, fins[1], inline, upd, "name")
				if r1.Error != nil {
					return r1
				}
				return r2
			}
			return c01SvFinish(h, mod, fins[0], inline, upd, pluckCol)
		}
		switch ctx {
		case "prep":
			return body(d.Session(&gorm.Session{PrepareStmt: true}))
		case "tx":
			var res *gorm.DB
			err := d.Transaction(func(tx *gorm.DB) error {
				res = body(tx)
				return nil
			})
			if res == nil {
				res = d.Session(&gorm.Session{NewDB: true})
				_ = res.AddError(err)
			}
			return res
		}
		return body(d)
	}
	return sc
}

// c01SvGenCase: the plain c01Case view (expected flattening A)
func c01SvGenCase(seed int64, db *gorm.DB) *c01Case { return c01SvGen(seed, db).c01Case }

// c01SvExtra: own judgement for a key class sole string - every judged statement binds the exact string
func c01SvExtra(sc *c01SvCase, v *c01Verdict) {
	if v.Bad != "" || !sc.Single || !sc.Key {
		return
	}
	for i, st := range v.Stmts {
		if i >= len(sc.Expect) {
			break
		}
		found := false
		for _, a := range st[1:] {
			if a == "s:"+sc.S {
				found = true
			}
		}
		if !found {
			v.Bad = fmt.Sprintf("statement #%d does not bind the key string %q verbatim", i+1, sc.S)
			return
		}
	}
}

func init() {
	run := func(r *Result, dialect string, seeds []int64) {
		db, rec := c01SvOpen(dialect)
		dbg := os.Getenv("C01SV_DEBUG")
		for i, seed := range seeds {
			if expired() {
				break
			}
			sc := c01SvGen(seed, db)
			c := sc.c01Case
			if _, err := strconv.Atoi(sc.S); (err == nil) != sc.Key {
				r.Note("e2e-strval: class oracle and strconv.Atoi disagree on %q (own: key=%v, Atoi err: %v)", sc.S, sc.Key, err)
			}
			v := c01Judge(db, rec, dialect, c)
			c01SvExtra(sc, &v)
			lat := "A (no latitude)"
			if sc.Alt != nil {
				lat = "A template, no value"
				if v.Bad != "" {
					expA := c.Expect
					c.Expect = sc.Alt
					v2 := c01Judge(db, rec, dialect, c)
					c.Expect = expA
					if v2.Bad == "" {
						v = v2
						lat = "B string bound"
					} else {
						v.Bad = v.Bad + " | with the string bound: " + v2.Bad
					}
				}
			}
			in := map[string]interface{}{"dialect": dialect, "case_seed": seed, "finisher": c.Fin, "chain": c.Desc}
			nargs := 0
			for _, e := range c.Expect {
				nargs += len(e.Args)
			}
			r.Case("e2e-strval", dialect+"|"+sc.Model+"|"+sc.Ctx+"|"+c.Fin+"|"+strings.Join(c.Desc, ";"), nargs >= 1)
			r.H("e2e-strval.position", sc.Pos)
			r.H("e2e-strval.spelling", sc.Spell)
			if sc.Single {
				r.H("e2e-strval.class", c01SvClass(sc.Key))
			} else {
				r.H("e2e-strval.class", "(text never inspected) "+c01SvClass(sc.Key))
			}
			r.H("e2e-strval.model", sc.Model)
			r.H("e2e-strval.context", sc.Ctx)
			r.H("e2e-strval.finisher", c.Fin)
			r.H("e2e-strval.dialect", dialect)
			r.H("e2e-strval.latitude", lat)
			r.H("e2e-strval.bound-values", c01Bucket(nargs))
			r.H("e2e-strval.statements", fmt.Sprint(len(v.Stmts)))
			if v.Err != "" {
				r.H("e2e-strval.error", c01Trunc(v.Err, 40))
			} else {
				r.H("e2e-strval.error", "(none)")
			}
			if dbg != "" && (dbg == "all" || strings.Contains(v.Err, dbg) || (dbg == "bad" && v.Bad != "")) {
				fmt.Fprintf(os.Stderr, "DEBUG %s seed %d fin %s bad %q\n  %s\n  err %s\n", dialect, seed, c.Fin, v.Bad, strings.Join(c.Desc, "\n  "), v.Err)
				for _, st := range v.Stmts {
					fmt.Fprintf(os.Stderr, "  stmt %q\n", st)
				}
				fmt.Fprintf(os.Stderr, "  expect %q\n  alt %q\n", c.Expect, sc.Alt)
			}
			if i%233 == 0 {
				r.Sample(map[string]interface{}{"suite": "e2e-strval", "input": in, "statements": v.Stmts})
			}
			if v.Bad != "" {
				r.Violate(Violation{Kind: "e2e", Suite: "e2e-strval", Input: in, Observed: map[string]interface{}{"statements": v.Stmts, "err": v.Err},
					Expected: map[string]interface{}{"verdict": v.Bad, "expected": c.Expect, "also-accepted": sc.Alt}})
			}
		}
	}
	register("C01", func(r *Result, rng *rand.Rand, tier string) {
		n := 700
		if tier == "thorough" {
			n = 20000
		} else if tier == "search" {
			n = 4000
		}
		t0 := time.Now()
		for _, dialect := range []string{"qmark", "dollar"} {
			seeds := make([]int64, n)
			for i := range seeds {
				seeds[i] = rng.Int63()
			}
			run(r, dialect, seeds)
		}
		r.Note("e2e-strval: %d cases per dialect in %.1fs", n, time.Since(t0).Seconds())
	})
	replayers["C01/e2e-strval"] = func(r *Result, input json.RawMessage) {
		var in struct {
			Dialect string `json:"dialect"`
			Seed    int64  `json:"case_seed"`
		}
		if err := json.Unmarshal(input, &in); err != nil {
			r.Note("bad replay input: %v", err)
			return
		}
		run(r, in.Dialect, []int64{in.Seed})
	}
}
