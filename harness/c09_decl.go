package main

// C09 round 4 — suite `decl`: the guard across unusual-but-legal DECLARATIONS.
//
//	soft-delete declarations (c08_decl.go's zoo: value / pointer DeletedAt, embedded gorm.Model, own embedded base (value and
//	pointer), embedded with prefix, renamed column, int64 flag type, struct stamp type, two soft-delete columns, wrapper types):
//	the automatically added filter never counts as a condition, whatever its column, type or zero value looks like;
//	key declarations: string key, `column:`-renamed ID, pointer key, key inside an embedded struct, composite key (uint +
//	string) with legitimately ZERO parts — a model value "without primary key" is one whose key fields are ALL zero; any
//	non-zero key part is a condition (callbacks/update.go ConvertToAssignments / callbacks/delete.go add one expression per
//	non-zero key field).
//
//	e2e: key-less + no condition ⇒ ErrMissingWhereClause, nothing sent, table unchanged; keyed (any non-zero part) ⇒ never
//	ErrMissingWhereClause.  × finisher (Model.Update, Model.Updates(map), Model.UpdateColumn, Delete(m), Model(m).Delete(&T{}),
//	Model(&T{}).Delete(m)) × Unscoped × drawn mode.
//	tie: the Lean statement machine (stmt.run) with the declaration's filter (if any) and one key atom per non-zero key part.

import (
	"encoding/json"
	"errors"
	"fmt"
	"math/rand"
	"reflect"

	"gorm.io/gorm"
)

type WKStr struct {
	Code string `gorm:"primaryKey"`
	V    int
}
type WKRen struct {
	UID uint `gorm:"column:uid;primaryKey"`
	V   int
}
type WKPtr struct {
	ID *uint `gorm:"primaryKey"`
	V  int
}
type WKBase struct {
	ID uint `gorm:"primaryKey"`
}
type WKEmb struct {
	WKBase
	V int
}
type WKComp struct {
	A uint   `gorm:"primaryKey;autoIncrement:false"`
	C string `gorm:"primaryKey"`
	V int
}

type c09Decl struct {
	Name string
	Soft bool
	// model(key): key 0 = key-less; 1 = keyed (all parts); 2 / 3 = composite with only the first / second part set
	Model func(key int) interface{}
	Parts func(key int) int // number of non-zero key parts
	Seed  func(db *gorm.DB)
	Keys  []int
}

func c09Decls() []c09Decl {
	var out []c09Decl
	for _, d := range c08Zoo {
		d := d
		out = append(out, c09Decl{Name: "soft: " + d.Name, Soft: true, Keys: []int{0, 1},
			Model: func(key int) interface{} {
				if key == 0 {
					return d.newModel()
				}
				return d.keyed(2)
			},
			Parts: func(key int) int { return key },
			Seed:  func(db *gorm.DB) { c08DeclSetup(db, d, rand.New(rand.NewSource(3))) }})
	}
	two := uint(2)
	mk := func(name string, keys []int, model func(int) interface{}, parts func(int) int, rows []interface{}) c09Decl {
		return c09Decl{Name: name, Keys: keys, Model: model, Parts: parts, Seed: func(db *gorm.DB) {
			if err := db.AutoMigrate(model(0)); err != nil {
				panic(err)
			}
			for _, r := range rows {
				if err := db.Create(r).Error; err != nil {
					panic(err)
				}
			}
		}}
	}
	one := func(key int) int { return key }
	out = append(out,
		mk("key: string", []int{0, 1}, func(k int) interface{} {
			if k == 0 {
				return &WKStr{}
			}
			return &WKStr{Code: "b"}
		}, one, []interface{}{&WKStr{Code: "a", V: 1}, &WKStr{Code: "b", V: 2}, &WKStr{Code: "c", V: 3}}),
		mk("key: renamed ID column", []int{0, 1}, func(k int) interface{} {
			if k == 0 {
				return &WKRen{}
			}
			return &WKRen{UID: 2}
		}, one, []interface{}{&WKRen{UID: 1, V: 1}, &WKRen{UID: 2, V: 2}, &WKRen{UID: 3, V: 3}}),
		mk("key: pointer", []int{0, 1}, func(k int) interface{} {
			if k == 0 {
				return &WKPtr{}
			}
			return &WKPtr{ID: &two}
		}, one, []interface{}{&WKPtr{V: 1}, &WKPtr{V: 2}, &WKPtr{V: 3}}),
		mk("key: inside an embedded struct", []int{0, 1}, func(k int) interface{} {
			if k == 0 {
				return &WKEmb{}
			}
			return &WKEmb{WKBase: WKBase{ID: 2}}
		}, one, []interface{}{&WKEmb{V: 1}, &WKEmb{V: 2}, &WKEmb{V: 3}}),
		mk("key: composite with zero parts", []int{0, 1, 2, 3}, func(k int) interface{} {
			switch k {
			case 1:
				return &WKComp{A: 2, C: "y"}
			case 2:
				return &WKComp{A: 2}
			case 3:
				return &WKComp{C: "y"}
			}
			return &WKComp{}
		}, func(k int) int {
			if k == 1 {
				return 2
			}
			if k == 0 {
				return 0
			}
			return 1
		}, []interface{}{&WKComp{A: 1, C: "x", V: 1}, &WKComp{A: 2, C: "y", V: 2}, &WKComp{A: 0, C: "y", V: 3}, &WKComp{A: 2, C: "", V: 4}}),
	)
	return out
}

type c09DeclCase struct {
	Decl     string `json:"declaration"`
	Key      int    `json:"key_variant"`
	Fin      string `json:"finisher"`
	Unscoped bool   `json:"unscoped"`
	Mode     string `json:"tx_mode,omitempty"`
}

var c09DeclFins = []string{"Model.Update", "Model.Updates(map)", "Model.UpdateColumn", "Delete(m)", "Model(m).Delete(&T{})", "Model(&T{}).Delete(m)", "Updates(m)"}

func c09DeclFinish(h *gorm.DB, d c09Decl, c c09DeclCase) *gorm.DB {
	m := d.Model(c.Key)
	switch c.Fin {
	case "Model.Update":
		return h.Model(m).Update("v", 91)
	case "Model.Updates(map)":
		return h.Model(m).Updates(map[string]interface{}{"v": 91})
	case "Model.UpdateColumn":
		return h.Model(m).UpdateColumn("v", 91)
	case "Delete(m)":
		return h.Delete(m)
	case "Model(m).Delete(&T{})":
		return h.Model(m).Delete(d.Model(0))
	case "Model(&T{}).Delete(m)":
		return h.Model(d.Model(0)).Delete(m)
	}
	// the value is the model: set V through reflection
	rv := reflect.ValueOf(m).Elem()
	rv.FieldByName("V").SetInt(91)
	return h.Updates(m)
}

type c09DeclObs struct {
	Rejected bool   `json:"rejected"`
	Err      string `json:"error"`
	NExec    int    `json:"statements_sent"`
	Changed  bool   `json:"table_changed"`
}

func c09DeclTable(db *gorm.DB, d c09Decl) string {
	stmt := &gorm.Statement{DB: db}
	if err := stmt.Parse(d.Model(0)); err != nil {
		panic(err)
	}
	return stmt.Schema.Table
}

func c09DeclDump(db *gorm.DB, table string) string {
	var rows []map[string]interface{}
	db.Session(&gorm.Session{NewDB: true}).Table(table).Order("1, 2").Find(&rows)
	return fmt.Sprint(rows)
}

func c09DeclExec(db *gorm.DB, rec *Recorder, d c09Decl, table string, c c09DeclCase) c09DeclObs {
	fin := c09Fin{Name: c.Fin, Run: func(h *gorm.DB, _ bool, _ int) *gorm.DB { return c09DeclFinish(h, d, c) }}
	cc := c09Case{Allow: "off", Unscoped: c.Unscoped, Fin: c.Fin, Mode: c.Mode}
	before := c09DeclDump(db, table)
	// c09Run dumps w_plains itself (ignored here); the declaration's own table is compared below
	err, events, _ := c09Run(db, rec, cc, nil, fin)
	o := c09DeclObs{Rejected: errors.Is(err, gorm.ErrMissingWhereClause), NExec: c09StmtEvents(events), Changed: c09DeclDump(db, table) != before}
	if err != nil {
		o.Err = err.Error()
	}
	return o
}

func c09DeclJudge(r *Result, d c09Decl, c c09DeclCase, o c09DeclObs) {
	if d.Parts(c.Key) == 0 {
		if !o.Rejected || o.NExec != 0 || o.Changed {
			r.Violate(Violation{Kind: "e2e", Suite: "decl", Input: c, Observed: o,
				Expected: "ErrMissingWhereClause, nothing sent, table unchanged (no condition; every key field of the model value is zero; the soft-delete filter does not count)"})
		}
		return
	}
	if o.Rejected {
		r.Violate(Violation{Kind: "e2e", Suite: "decl", Input: c, Observed: o, Expected: "a model value with a non-zero key part supplies a condition: never ErrMissingWhereClause"})
	}
}

func init() {
	register("C09", func(r *Result, rng *rand.Rand, tier string) {
		var ops [][]interface{}
		type pending struct {
			c c09DeclCase
			o c09DeclObs
		}
		var pend []pending
		for _, d := range c09Decls() {
			db, rec, sqlDB := openW(nil, false, nil)
			d.Seed(db)
			table := c09DeclTable(db, d)
			pristine := c09DeclDump(db, table)
			for _, key := range d.Keys {
				for _, fin := range c09DeclFins {
					for _, unscoped := range []bool{false, true} {
						reps := 1
						if tier == "thorough" {
							reps = 6
						}
						for rep := 0; rep < reps; rep++ {
							c := c09DeclCase{Decl: d.Name, Key: key, Fin: fin, Unscoped: unscoped, Mode: c09Modes[rng.Intn(len(c09Modes))]}
							o := c09DeclExec(db, rec, d, table, c)
							r.Case("decl", fmt.Sprint(c), true)
							r.H("decl.declaration", d.Name)
							r.H("decl.decision", fmt.Sprintf("keyParts=%d -> rejected=%v", d.Parts(key), o.Rejected))
							c09DeclJudge(r, d, c, o)
							if o.Changed {
								// re-seed: drop and rebuild the declaration's table
								db.Migrator().DropTable(table)
								d.Seed(db)
								if c09DeclDump(db, table) != pristine {
									pristine = c09DeclDump(db, table)
								}
							}
							// ---- the tie
							var softJ interface{}
							if d.Soft {
								softJ = map[string]interface{}{"col": "soft", "kind": "eq", "val": "nil", "id": 0}
							}
							keyJ := []interface{}{}
							for i := 0; i < d.Parts(key); i++ {
								keyJ = append(keyJ, map[string]interface{}{"col": fmt.Sprint("k", i), "kind": "eq", "val": "scalar", "id": 1 + i})
							}
							none := []interface{}{}
							var steps []interface{}
							if unscoped {
								steps = append(steps, []interface{}{"unscoped"})
							}
							modelKey := interface{}(keyJ)
							switch fin {
							case "Delete(m)", "Model(&T{}).Delete(m)":
								steps = append(steps, []interface{}{"fin", "delete", keyJ, false})
								modelKey = none
							case "Model(m).Delete(&T{})":
								steps = append(steps, []interface{}{"fin", "delete", none, false})
							case "Updates(m)":
								steps = append(steps, []interface{}{"fin", "update", keyJ, true})
							default:
								steps = append(steps, []interface{}{"fin", "update", none, false})
							}
							ops = append(ops, []interface{}{"stmt.run", softJ, modelKey, false, steps})
							pend = append(pend, pending{c, o})
						}
					}
				}
			}
			sqlDB.Close()
			if expired() {
				break
			}
		}
		res, err := AskLean(ops)
		if err != nil {
			r.Violate(Violation{Kind: "correspondence", Suite: "decl", Note: err.Error()})
			return
		}
		for i, p := range pend {
			var states []struct {
				Rejected bool `json:"rejected"`
			}
			if json.Unmarshal(res[i], &states) != nil || len(states) == 0 {
				r.Violate(Violation{Kind: "correspondence", Suite: "decl", Input: p.c, Observed: string(res[i]), Note: "model rejected the input"})
				continue
			}
			r.CorrCompared++
			if states[len(states)-1].Rejected != p.o.Rejected {
				r.Violate(Violation{Kind: "correspondence", Suite: "decl", Input: p.c, Observed: p.o, Expected: states[len(states)-1].Rejected,
					Note: "real decision differs from the Lean statement machine for this declaration"})
			}
		}
	})

	replayers["C09/decl"] = func(r *Result, input json.RawMessage) {
		var c c09DeclCase
		if json.Unmarshal(input, &c) != nil {
			return
		}
		for _, d := range c09Decls() {
			if d.Name != c.Decl {
				continue
			}
			db, rec, sqlDB := openW(nil, false, nil)
			defer sqlDB.Close()
			d.Seed(db)
			c09DeclJudge(r, d, c, c09DeclExec(db, rec, d, c09DeclTable(db, d), c))
		}
	}
}
