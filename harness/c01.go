package main

// C01: argument values reach the database only as bound parameters, one per placeholder.
//
// This file: the value codec shared by the correspondence suite (JSON encoding of Lean `Gorm.Bind.Val`
// <-> real Go values), the type-directed generator, and the correspondence suite itself:
// the REAL gorm.Statement (tests.DummyDialector for `?`, a harness-local `$n` dialector) against the
// Lean model `Gorm.Bind.render`: exact equality of SQL text and of the var list (as tagged values).
// The end-to-end oracle lives in c01_e2e.go.

import (
	"context"
	"reflect"
	"database/sql"
	"encoding/json"
	"fmt"
	"math/rand"
	"os"
	"sort"
	"strconv"
	"strings"
	"time"

	"gorm.io/gorm"
	"gorm.io/gorm/clause"
	"gorm.io/gorm/logger"
	"gorm.io/gorm/utils/tests"
)

// ---- dialectors ---------------------------------------------------------------------------------

// c01Dollar numbers placeholders like the Postgres dialector: `$` + len(stmt.Vars)
type c01Dollar struct{ tests.DummyDialector }

func (c01Dollar) BindVarTo(writer clause.Writer, stmt *gorm.Statement, v interface{}) {
	writer.WriteByte('$')
	writer.WriteString(strconv.Itoa(len(stmt.Vars)))
}

func c01OpenDummy(dialect string) *gorm.DB {
	var d gorm.Dialector = tests.DummyDialector{}
	if dialect == "dollar" {
		d = c01Dollar{}
	}
	db, err := gorm.Open(d, &gorm.Config{Logger: logger.Discard, NowFunc: fixedNowFunc, SkipDefaultTransaction: true})
	if err != nil {
		panic(err)
	}
	return db
}

// ---- harness-local value types ------------------------------------------------------------------

type c01Bytes []byte // a named byte-slice type: reaches AddVar's reflect arm, not `case []byte`

// gorm.Valuer (not a driver.Valuer)
type c01GV struct{ E clause.Expr }

func (g c01GV) GormValue(ctx context.Context, db *gorm.DB) clause.Expr { return g.E }

type c01GVP struct{ E clause.Expr }

func (g *c01GVP) GormValue(ctx context.Context, db *gorm.DB) clause.Expr { return g.E }

// structs for NamedExpr's struct argument form
// Field names are chosen so that they never equal an exported field of a library struct (clause.Column.Name,
// sql.NullString.String, clause.Expr.SQL, …): NamedExpr.Build adds the exported fields of EVERY struct-typed
// element of Vars to its name map by reflection; the model has name-map entries only for sql.NamedArg, map and
// the structs encoded as such.
type C01Person struct {
	Pname  string
	Page   int
	secret int
}
type C01Wrap struct {
	C01Person
	Nick string
}

// c01Neg builds the NegationBuild of the wrapped expression (what clause.Not does for a single member)
type c01Neg struct {
	E clause.NegationExpressionBuilder
}

func (n c01Neg) Build(b clause.Builder) { n.E.NegationBuild(b) }

// c01Stmt = a whole statement: clauses in build order
type c01Stmt struct {
	Names []string
	Exprs []interface{}
}

// ---- payloads -----------------------------------------------------------------------------------

func c01Payload(p string) interface{} {
	i := strings.IndexByte(p, ':')
	if i < 0 {
		panic("bad payload " + p)
	}
	tag, body := p[:i], p[i+1:]
	atoi := func() int { n, err := strconv.Atoi(body); if err != nil { panic(err) }; return n }
	if st, ok := c01TagType[tag]; ok {
		return c01ScalarOf(st, body)
	}
	switch tag {
	case "pi":
		n := atoi()
		return &n
	case "ps":
		s := body
		return &s
	case "pny":
		n := C01U8(atoi())
		return &n
	case "t":
		return fixedNow.Add(time.Duration(atoi()) * time.Second)
	}
	panic("bad payload tag " + p)
}

// c01Enc encodes a Go value found in stmt.Vars (or anywhere) back into the model's JSON encoding.
func c01Enc(v interface{}) interface{} {
	sc := func(s string) interface{} { return []interface{}{"s", s} }
	switch x := v.(type) {
	case nil:
		return nil
	case *int:
		if x == nil {
			return nil
		}
		return sc("pi:" + strconv.Itoa(*x))
	case *string:
		if x == nil {
			return nil
		}
		return sc("ps:" + *x)
	case *C01U8:
		if x == nil {
			return nil
		}
		return sc("pny:" + strconv.Itoa(int(*x)))
	case time.Time:
		return sc("t:" + strconv.Itoa(int(x.Sub(fixedNow)/time.Second)))
	case sql.NullString:
		return []interface{}{"dv", !x.Valid, "s:" + x.String}
	case sql.NullInt64:
		return []interface{}{"dv", !x.Valid, "i64:" + strconv.FormatInt(x.Int64, 10)}
	case *sql.NullString:
		if x == nil {
			return []interface{}{"dv", true, "nilptr:"}
		}
	case c01GV:
		return []interface{}{"gv", false, c01Enc(x.E)}
	case *c01GVP:
		if x == nil {
			return []interface{}{"gv", true, nil}
		}
	case []interface{}:
		return []interface{}{"il", c01EncList(len(x), func(i int) interface{} { return x[i] })}
	case sql.NamedArg:
		return []interface{}{"na", x.Name, c01Enc(x.Value)}
	case map[string]interface{}:
		keys := make([]string, 0, len(x))
		for k := range x {
			keys = append(keys, k)
		}
		sort.Strings(keys)
		ks, vs := []interface{}{}, []interface{}{}
		for _, k := range keys {
			ks = append(ks, k)
			vs = append(vs, c01Enc(x[k]))
		}
		return []interface{}{"m", ks, vs}
	case C01Person:
		return c01EncPerson(x, "Person")
	case *C01Person:
		if x == nil {
			return nil
		}
		return c01EncPerson(*x, "*Person")
	case C01Wrap:
		return c01EncWrap(c01EncPerson(x.C01Person, "Person"), x.Nick, "Wrap")
	case *C01Wrap:
		return c01EncWrap(c01EncPerson(x.C01Person, "Person"), x.Nick, "*Wrap")
	case C01WrapP:
		return c01EncWrap(c01Enc(x.C01Person), x.Nick, "WrapP")
	case *C01WrapP:
		return c01EncWrap(c01Enc(x.C01Person), x.Nick, "*WrapP")
	case C01Args:
		return c01EncArgs(x, "Args")
	case *C01Args:
		return c01EncArgs(*x, "*Args")
	case clause.Column:
		return []interface{}{"col", x.Table, x.Name, x.Alias, x.Raw}
	case clause.Table:
		return []interface{}{"tab", x.Name, x.Alias, x.Raw}
	case clause.Expr:
		return []interface{}{"e", x.SQL, c01EncList(len(x.Vars), func(i int) interface{} { return x.Vars[i] }), x.WithoutParentheses}
	case clause.NamedExpr:
		return []interface{}{"ne", x.SQL, c01EncList(len(x.Vars), func(i int) interface{} { return x.Vars[i] })}
	case *gorm.DB:
		if j, ok := c01SubJSON[x]; ok {
			return j
		}
	case clause.Eq:
		return []interface{}{"cmp", "eq", c01EncCol(x.Column), c01Enc(x.Value)}
	case clause.Neq:
		return []interface{}{"cmp", "neq", c01EncCol(x.Column), c01Enc(x.Value)}
	case clause.Gt:
		return []interface{}{"cmp", "gt", c01EncCol(x.Column), c01Enc(x.Value)}
	case clause.Gte:
		return []interface{}{"cmp", "gte", c01EncCol(x.Column), c01Enc(x.Value)}
	case clause.Lt:
		return []interface{}{"cmp", "lt", c01EncCol(x.Column), c01Enc(x.Value)}
	case clause.Lte:
		return []interface{}{"cmp", "lte", c01EncCol(x.Column), c01Enc(x.Value)}
	case clause.Like:
		return []interface{}{"cmp", "like", c01EncCol(x.Column), c01Enc(x.Value)}
	case clause.IN:
		return []interface{}{"in", false, c01EncCol(x.Column), c01EncList(len(x.Values), func(i int) interface{} { return x.Values[i] })}
	case c01Neg:
		switch e := x.E.(type) {
		case clause.Like:
			return []interface{}{"cmp", "notlike", c01EncCol(e.Column), c01Enc(e.Value)}
		case clause.IN:
			return []interface{}{"in", true, c01EncCol(e.Column), c01EncList(len(e.Values), func(i int) interface{} { return e.Values[i] })}
		}
	case clause.Assignment:
		return []interface{}{"as", c01Enc(x.Column), c01Enc(x.Value)}
	case clause.Set:
		cols, vals := []interface{}{}, []interface{}{}
		for _, a := range x {
			cols = append(cols, c01Enc(a.Column))
			vals = append(vals, c01Enc(a.Value))
		}
		return []interface{}{"ci", "SET", []interface{}{"set", cols, vals}}
	case clause.Values:
		return []interface{}{"ci", "", []interface{}{"values", c01EncList(len(x.Columns), func(i int) interface{} { return x.Columns[i] }),
			c01EncList(len(x.Values), func(i int) interface{} { return x.Values[i] })}}
	case clause.Limit:
		has, lim := x.Limit != nil, 0
		if has {
			lim = *x.Limit
		}
		return []interface{}{"ci", "", []interface{}{"limit", has, lim >= 0, "i:" + strconv.Itoa(lim), x.Offset > 0, "i:" + strconv.Itoa(x.Offset)}}
	case clause.Where:
		return []interface{}{"ci", "WHERE", []interface{}{"w", c01EncExprs(x.Exprs)}}
	case clause.OnConflict:
		var du interface{} = []interface{}{"set", []interface{}{}, []interface{}{}}
		if !x.DoNothing {
			du = c01Enc(x.DoUpdates).([]interface{})[2]
		}
		return []interface{}{"ci", "ON CONFLICT", []interface{}{"oc", x.OnConstraint, c01EncList(len(x.Columns), func(i int) interface{} { return x.Columns[i] }),
			c01EncExprs(x.TargetWhere.Exprs), x.DoNothing, du, c01EncExprs(x.Where.Exprs)}}
	}
	if p := c01ScalarPayload(v); p != "" {
		return sc(p)
	}
	if rv := reflect.ValueOf(v); rv.Kind() == reflect.Slice || rv.Kind() == reflect.Array {
		gotype, isBytes := c01ListTypeOf(rv)
		if isBytes {
			bt, bs := c01BytesTypeOf(rv)
			return []interface{}{"b", bt != "bytes", c01EncBytes(bs), bt}
		}
		if gotype != "" {
			return []interface{}{"l", c01ListStd(gotype), c01EncList(rv.Len(), func(i int) interface{} { return rv.Index(i).Interface() }), gotype}
		}
	}
	return []interface{}{"?", fmt.Sprintf("%T", v)}
}

func c01EncPerson(p C01Person, gotype string) interface{} {
	return []interface{}{"st", []interface{}{[]interface{}{"Pname", false}, []interface{}{"Page", false}, []interface{}{"secret", false}},
		[]interface{}{c01Enc(p.Pname), c01Enc(p.Page), c01Enc(p.secret)}, gotype}
}

func c01EncWrap(person interface{}, nick string, gotype string) interface{} {
	return []interface{}{"st", []interface{}{[]interface{}{"C01Person", true}, []interface{}{"Nick", false}}, []interface{}{person, c01Enc(nick)}, gotype}
}

func c01EncArgs(a C01Args, gotype string) interface{} {
	return []interface{}{"st", []interface{}{[]interface{}{"Pname", false}, []interface{}{"Ids", false}, []interface{}{"Anyv", false}},
		[]interface{}{c01Enc(a.Pname), c01Enc(a.Ids), c01Enc(a.Anyv)}, gotype}
}

func c01EncBytes(b []byte) []interface{} {
	out := make([]interface{}, len(b))
	for i, c := range b {
		out[i] = "y:" + strconv.Itoa(int(c))
	}
	return out
}

func c01EncList(n int, at func(int) interface{}) []interface{} {
	out := make([]interface{}, n)
	for i := 0; i < n; i++ {
		out[i] = c01Enc(at(i))
	}
	return out
}

// ---- decoder: model JSON -> real Go value --------------------------------------------------------

type c01Ctx struct {
	db *gorm.DB // handle of the dialect under test (sub-queries are derived from it)
}

// c01SubJSON remembers the encoding of every sub-query handle the decoder created (a *gorm.DB that ends up
// in stmt.Vars un-rendered - e.g. as the value of a surplus argument - is recognised by identity)
var c01SubJSON = map[*gorm.DB]interface{}{}

// c01Strip trims the generator-only tail (template, args) of ["rs", text, vars, tmpl, args] nodes
func c01Strip(j interface{}) interface{} {
	a, ok := j.([]interface{})
	if !ok {
		return j
	}
	if len(a) == 5 && a[0] == "rs" {
		a = a[:3]
	}
	if len(a) == 4 && (a[0] == "l" || a[0] == "b" || a[0] == "st") {
		a = a[:3] // the Go type annotation
	}
	out := make([]interface{}, len(a))
	for i := range a {
		out[i] = c01Strip(a[i])
	}
	return out
}

func c01EncCol(c interface{}) interface{} {
	if s, ok := c.(string); ok {
		return []interface{}{"col", "", s, "", false}
	}
	return c01Enc(c)
}

func c01EncExprs(es []clause.Expression) []interface{} {
	return c01EncList(len(es), func(i int) interface{} { return es[i] })
}

func jl(v interface{}) []interface{} {
	if v == nil {
		return nil
	}
	return v.([]interface{})
}

func (c *c01Ctx) list(v interface{}) []interface{} {
	in := jl(v)
	out := make([]interface{}, len(in))
	for i := range in {
		out[i] = c.real(in[i])
	}
	return out
}

// real converts the JSON encoding into the Go value gorm sees. Panics on encodings the generator never emits.
func (c *c01Ctx) real(j interface{}) interface{} {
	if j == nil {
		return nil
	}
	a := j.([]interface{})
	switch a[0].(string) {
	case "s":
		return c01Payload(a[1].(string))
	case "b":
		bs := []byte{}
		for _, e := range jl(a[2]) {
			bs = append(bs, c01Payload(e.(string)).(uint8))
		}
		return c01MakeBytes(a[3].(string), bs)
	case "dv":
		p := a[2].(string)
		switch {
		case strings.HasPrefix(p, "s:"):
			return sql.NullString{String: p[2:], Valid: !a[1].(bool)}
		case strings.HasPrefix(p, "i64:"):
			return sql.NullInt64{Int64: c01Payload(p).(int64), Valid: !a[1].(bool)}
		case p == "nilptr:":
			return (*sql.NullString)(nil)
		}
		panic("bad dv")
	case "gv":
		if a[1].(bool) {
			return (*c01GVP)(nil)
		}
		return c01GV{E: c.real(a[2]).(clause.Expr)}
	case "l":
		return c01MakeList(a[3].(string), c.list(a[2]))
	case "il":
		return c.list(a[1])
	case "na":
		return sql.Named(a[1].(string), c.real(a[2]))
	case "m":
		m := map[string]interface{}{}
		ks, vs := jl(a[1]), jl(a[2])
		for i := range ks {
			m[ks[i].(string)] = c.real(vs[i])
		}
		return m
	case "st":
		vs := jl(a[2])
		person := func(j interface{}) C01Person {
			p := jl(j.([]interface{})[2])
			return C01Person{Pname: c.real(p[0]).(string), Page: c.real(p[1]).(int), secret: c.real(p[2]).(int)}
		}
		switch gt := a[3].(string); gt {
		case "Person":
			return person(j)
		case "*Person":
			p := person(j)
			return &p
		case "Wrap":
			return C01Wrap{C01Person: person(vs[0]), Nick: c.real(vs[1]).(string)}
		case "*Wrap":
			return &C01Wrap{C01Person: person(vs[0]), Nick: c.real(vs[1]).(string)}
		case "WrapP", "*WrapP":
			w := C01WrapP{Nick: c.real(vs[1]).(string)}
			if vs[0] != nil {
				p := person(vs[0])
				w.C01Person = &p
			}
			if gt == "WrapP" {
				return w
			}
			return &w
		case "Args", "*Args":
			w := C01Args{Pname: c.real(vs[0]).(string), Ids: c.real(vs[1]), Anyv: c.real(vs[2])}
			if gt == "Args" {
				return w
			}
			return &w
		}
		panic("bad struct type")
	case "col":
		if a[1].(string) == "" && a[3].(string) == "" && !a[4].(bool) {
			return clause.Column{Name: a[2].(string)}
		}
		return clause.Column{Table: a[1].(string), Name: a[2].(string), Alias: a[3].(string), Raw: a[4].(bool)}
	case "tab":
		return clause.Table{Name: a[1].(string), Alias: a[2].(string), Raw: a[3].(bool)}
	case "e":
		return clause.Expr{SQL: a[1].(string), Vars: c.list(a[2]), WithoutParentheses: a[3].(bool)}
	case "ne":
		return clause.NamedExpr{SQL: a[1].(string), Vars: c.list(a[2])}
	case "cmp":
		col, val := c.colReal(a[2]), c.real(a[3])
		switch a[1].(string) {
		case "eq":
			return clause.Eq{Column: col, Value: val}
		case "neq":
			return clause.Neq{Column: col, Value: val}
		case "gt":
			return clause.Gt{Column: col, Value: val}
		case "gte":
			return clause.Gte{Column: col, Value: val}
		case "lt":
			return clause.Lt{Column: col, Value: val}
		case "lte":
			return clause.Lte{Column: col, Value: val}
		case "like":
			return clause.Like{Column: col, Value: val}
		case "notlike":
			return c01Neg{clause.Like{Column: col, Value: val}}
		}
		panic("bad cmp")
	case "in":
		in := clause.IN{Column: c.colReal(a[2]), Values: c.list(a[3])}
		if a[1].(bool) {
			return c01Neg{in}
		}
		return in
	case "values":
		v := clause.Values{}
		for _, cj := range jl(a[1]) {
			v.Columns = append(v.Columns, c.real(cj).(clause.Column))
		}
		for _, r := range jl(a[2]) {
			v.Values = append(v.Values, c.real(r).([]interface{}))
		}
		return v
	case "set":
		s := clause.Set{}
		cols, vals := jl(a[1]), jl(a[2])
		for i := range cols {
			s = append(s, clause.Assignment{Column: c.real(cols[i]).(clause.Column), Value: c.real(vals[i])})
		}
		return s
	case "limit":
		l := clause.Limit{}
		if a[1].(bool) {
			n := c01Payload(a[3].(string)).(int)
			l.Limit = &n
		}
		l.Offset = c01Payload(a[5].(string)).(int)
		return l
	case "oc":
		oc := clause.OnConflict{OnConstraint: a[1].(string), DoNothing: a[4].(bool)}
		for _, cj := range jl(a[2]) {
			oc.Columns = append(oc.Columns, c.real(cj).(clause.Column))
		}
		for _, e := range jl(a[3]) {
			oc.TargetWhere.Exprs = append(oc.TargetWhere.Exprs, c.real(e).(clause.Expression))
		}
		if !oc.DoNothing {
			oc.DoUpdates = c.real(a[5]).(clause.Set)
		}
		for _, e := range jl(a[6]) {
			oc.Where.Exprs = append(oc.Where.Exprs, c.real(e).(clause.Expression))
		}
		return oc
	case "w":
		w := clause.Where{}
		for _, e := range jl(a[1]) {
			w.Exprs = append(w.Exprs, c.real(e).(clause.Expression))
		}
		return w
	case "ci":
		inner := c.real(a[2]).(clause.Interface)
		cl := clause.Clause{Name: inner.Name()}
		inner.MergeClause(&cl)
		if cl.Name != a[1].(string) {
			panic(fmt.Sprintf("generator: clause name %q vs %q", cl.Name, a[1]))
		}
		return inner
	case "cl":
		st := c01Stmt{}
		for _, n := range jl(a[1]) {
			st.Names = append(st.Names, n.(string))
		}
		st.Exprs = jl(a[2]) // decoded at build time (needs the clause kind)
		return st
	case "sq":
		// names ⊆ SELECT FROM WHERE "" (limit), in this order
		names, es := jl(a[1]), jl(a[2])
		tx := c.db.Session(&gorm.Session{NewDB: true})
		for i, n := range names {
			switch n.(string) {
			case "SELECT":
				e := c.real(es[i]).(clause.Expr)
				if len(e.Vars) > 0 {
					tx = tx.Select(e.SQL, e.Vars...)
				}
			case "FROM":
				tx = tx.Table(c.real(es[i]).(clause.Table).Name)
			case "WHERE":
				for _, wj := range jl(es[i].([]interface{})[1]) {
					switch e := c.real(wj).(type) {
					case clause.Expr:
						if strings.Contains(e.SQL, "?") || len(e.Vars) == 0 {
							tx = tx.Where(e.SQL, e.Vars...)
						} else {
							tx = tx.Where(e)
						}
					default:
						tx = tx.Where(e)
					}
				}
			case "":
				l := c.real(es[i]).(clause.Limit)
				tx = tx.Limit(*l.Limit)
			}
		}
		c01SubJSON[tx] = j
		return tx
	case "rs":
		tmpl := a[3].(string)
		tx := c.db.Session(&gorm.Session{NewDB: true}).Raw(tmpl, c.list(a[4])...)
		c01SubJSON[tx] = j
		return tx
	}
	panic(fmt.Sprintf("bad encoding %v", a[0]))
}

func (c *c01Ctx) colReal(j interface{}) interface{} {
	a := j.([]interface{})
	if a[0] == "col" && a[1].(string) == "" && a[3].(string) == "" && !a[4].(bool) {
		return a[2].(string) // plain string column
	}
	return c.real(j)
}

// resolve fills the rendered text / vars of every ["rs", _, _, tmpl, args] node from the REAL db.Raw
func (c *c01Ctx) resolve(j interface{}) {
	a, ok := j.([]interface{})
	if !ok {
		return
	}
	if len(a) == 5 && a[0] == "rs" {
		for _, x := range jl(a[4]) {
			c.resolve(x)
		}
		sub := c.real(j).(*gorm.DB)
		a[1] = sub.Statement.SQL.String()
		a[2] = c01EncList(len(sub.Statement.Vars), func(i int) interface{} { return sub.Statement.Vars[i] })
		return
	}
	for _, x := range a {
		c.resolve(x)
	}
}

// build renders the encoded value with the real gorm.Statement: returns SQL text and encoded vars
func (c *c01Ctx) build(j interface{}) (sqlText string, vars []interface{}, panicked string) {
	defer func() {
		if e := recover(); e != nil {
			panicked = fmt.Sprint(e)
		}
	}()
	stmt := &gorm.Statement{DB: c.db.Session(&gorm.Session{NewDB: true}), Table: "tt", Clauses: map[string]clause.Clause{}, Context: context.Background()}
	v := c.real(j)
	if c01Tag(j) == "ci" { // a clause.Interface handed to AddVar (not built directly)
		stmt.AddVar(stmt, v)
		return stmt.SQL.String(), c01Strip(c01EncList(len(stmt.Vars), func(i int) interface{} { return stmt.Vars[i] })).([]interface{}), ""
	}
	switch x := v.(type) {
	case c01Stmt:
		order := []string{}
		for i, n := range x.Names {
			e := x.Exprs[i]
			var ci clause.Interface
			switch n {
			case "SELECT":
				ci = clause.Select{Expression: c.real(e).(clause.Expression)}
			case "FROM":
				ci = clause.From{Tables: []clause.Table{c.real(e).(clause.Table)}}
			case "ORDER BY":
				ci = clause.OrderBy{Expression: c.real(e).(clause.Expression)}
			default:
				ci = c.real(e).(clause.Interface)
			}
			stmt.AddClause(ci)
			order = append(order, ci.Name())
		}
		stmt.Build(order...)
	case clause.Interface:
		x.Build(stmt)
	default:
		stmt.AddVar(stmt, v)
	}
	return stmt.SQL.String(), c01Strip(c01EncList(len(stmt.Vars), func(i int) interface{} { return stmt.Vars[i] })).([]interface{}), ""
}

// ---- generator ----------------------------------------------------------------------------------

type c01Gen struct {
	rng  *rand.Rand
	n    int
	hist func(string)
}

var c01Hostile = []string{"it's", "a?b", "@name", "x)--", `q"q`, "$1", "\\", ";", "(?)", "@n ", "plain", "", "é?"}

func (g *c01Gen) scalarPayload() string {
	g.n++
	switch g.rng.Intn(12) {
	case 0, 1, 2:
		return "i:" + strconv.Itoa(g.rng.Intn(2000)-5)
	case 3, 4, 5:
		return "s:" + c01Hostile[g.rng.Intn(len(c01Hostile))] + strconv.Itoa(g.n)
	case 6:
		return "i64:" + strconv.Itoa(g.rng.Intn(100))
	case 7:
		return "u:" + strconv.Itoa(g.rng.Intn(100))
	case 8:
		return []string{"f:1.5", "f:2.25", "f:-3"}[g.rng.Intn(3)]
	case 9:
		return "B:" + strconv.FormatBool(g.rng.Intn(2) == 0)
	case 10:
		if g.rng.Intn(2) == 0 {
			return "pi:" + strconv.Itoa(g.rng.Intn(50))
		}
		return "ps:" + c01Hostile[g.rng.Intn(len(c01Hostile))]
	default:
		return "t:" + strconv.Itoa(g.rng.Intn(1000))
	}
}

func (g *c01Gen) scalar() interface{} { return []interface{}{"s", g.scalarPayload()} }

// elemPayload: one element of a typed list with element tag `tag`
func (g *c01Gen) elem(tag string) interface{} {
	sc := func(p string) interface{} { return []interface{}{"s", p} }
	switch tag {
	case "pi":
		if g.rng.Intn(6) == 0 {
			return nil // nil pointer element
		}
		return sc("pi:" + strconv.Itoa(g.rng.Intn(9)))
	case "pny":
		return sc("pny:" + strconv.Itoa(g.rng.Intn(200)))
	case "dv":
		if g.rng.Intn(3) == 0 {
			return []interface{}{"dv", true, "s:"}
		}
		return []interface{}{"dv", false, "s:" + c01Hostile[g.rng.Intn(len(c01Hostile))]}
	case "l":
		m := g.rng.Intn(3)
		inner := make([]interface{}, m)
		for k := range inner {
			inner[k] = sc("i:" + strconv.Itoa(g.rng.Intn(99)))
		}
		return []interface{}{"l", true, inner, "s:i"}
	}
	switch c01TagType[tag].t.Kind() {
	case reflect.String:
		return sc(tag + ":" + c01Hostile[g.rng.Intn(len(c01Hostile))])
	case reflect.Bool:
		return sc(tag + ":" + strconv.FormatBool(g.rng.Intn(2) == 0))
	case reflect.Float32, reflect.Float64:
		return sc(tag + ":" + []string{"1.5", "2.25", "-3"}[g.rng.Intn(3)])
	case reflect.Int, reflect.Int8, reflect.Int16, reflect.Int32, reflect.Int64:
		return sc(tag + ":" + strconv.Itoa(g.rng.Intn(140)-12))
	default:
		return sc(tag + ":" + strconv.Itoa(g.rng.Intn(250)))
	}
}

// typedList: a slice / array / named-slice of n elements of a random element type (every basic kind, named and
// unnamed; pointers; driver.Valuers; nested []int)
func (g *c01Gen) typedList(n int) interface{} {
	tags := append(append([]string{}, c01ListElemTags...), "l", "i", "s", "ny", "ny", "i64", "u") // common ones weighted
	tag := tags[g.rng.Intn(len(tags))]
	kind := "s"
	switch g.rng.Intn(6) {
	case 0, 1:
		kind = "a"
	case 2:
		if _, ok := c01NamedSlice[tag]; ok {
			kind = "n"
		}
	}
	gotype := kind + ":" + tag
	els := make([]interface{}, n)
	for i := range els {
		els[i] = g.elem(tag)
	}
	g.hist("list:" + kind + ":" + tag)
	if n == 0 {
		g.hist("list:empty:" + kind)
	}
	return []interface{}{"l", c01ListStd(gotype), els, gotype}
}

func (g *c01Gen) listLen() int {
	switch g.rng.Intn(10) {
	case 0, 1:
		return 0
	case 2:
		return 10 + g.rng.Intn(4) // `$10`…: prefix issues
	default:
		return 1 + g.rng.Intn(4)
	}
}

func (g *c01Gen) list() interface{} { return g.typedList(g.listLen()) }

// byte strings: []byte, a named byte-slice type, json.RawMessage, [N]byte - all ONE bound value (element type IS uint8)
func (g *c01Gen) bytes() interface{} {
	n := g.rng.Intn(4)
	s := []string{"", "a", "a'?", "@x)"}[n]
	bt := []string{"bytes", "bytes", "c01Bytes", "raw", "arr"}[g.rng.Intn(5)]
	g.hist("bytes:" + bt)
	return []interface{}{"b", bt != "bytes", c01EncBytes([]byte(s)), bt}
}

func (g *c01Gen) column() interface{} {
	names := []string{"name", "age", "email", "z"}
	switch g.rng.Intn(4) {
	case 0:
		return []interface{}{"col", "tt", names[g.rng.Intn(4)], "", false}
	case 1:
		return []interface{}{"col", "", names[g.rng.Intn(4)], "al", false}
	case 2:
		return []interface{}{"col", "", "lower(name)", "", true}
	default:
		return []interface{}{"col", "", names[g.rng.Intn(4)], "", false}
	}
}

// val generates a value for an AddVar position
func (g *c01Gen) val(depth int) interface{} {
	k := g.rng.Intn(100)
	if depth <= 0 && k >= 60 {
		k = g.rng.Intn(60)
	}
	switch {
	case k < 30:
		g.hist("scalar")
		return g.scalar()
	case k < 34:
		g.hist("nil")
		return nil
	case k < 38:
		g.hist("bytes")
		return g.bytes()
	case k < 43:
		g.hist("dvaluer")
		switch g.rng.Intn(4) {
		case 0:
			return []interface{}{"dv", true, "s:"}
		case 1:
			return []interface{}{"dv", g.rng.Intn(2) == 0, "i64:" + strconv.Itoa(g.rng.Intn(9))}
		case 2:
			return []interface{}{"dv", true, "nilptr:"}
		default:
			return []interface{}{"dv", false, "s:" + c01Hostile[g.rng.Intn(len(c01Hostile))]}
		}
	case k < 54:
		g.hist("list")
		return g.list()
	case k < 57:
		g.hist("column/table")
		if g.rng.Intn(3) == 0 {
			return []interface{}{"tab", "tt", []string{"", "t2"}[g.rng.Intn(2)], false}
		}
		return g.column()
	case k < 60:
		g.hist("named(positional)")
		return []interface{}{"na", "n" + strconv.Itoa(g.rng.Intn(3)), g.scalar()}
	case k < 66:
		g.hist("ilist")
		n := g.rng.Intn(4)
		els := make([]interface{}, n)
		for i := range els {
			els[i] = g.val(depth - 1)
		}
		if g.rng.Intn(4) == 0 { // []interface{}{ one typed list }
			g.hist("ilist:single-list")
			els = []interface{}{g.list()}
		}
		return []interface{}{"il", els}
	case k < 76:
		g.hist("expr")
		return g.expr(depth - 1)
	case k < 80:
		g.hist("nexpr")
		return g.nexpr(depth - 1)
	case k < 83:
		g.hist("gvaluer")
		if g.rng.Intn(4) == 0 {
			return []interface{}{"gv", true, nil}
		}
		return []interface{}{"gv", false, g.expr(depth - 1)}
	case k < 87:
		g.hist("cmp")
		return g.cmp(depth - 1)
	case k < 90:
		g.hist("in")
		return g.in(depth - 1)
	case k < 92:
		g.hist("map/struct(positional)")
		if g.rng.Intn(2) == 0 {
			return g.nmap()
		}
		return g.strct()
	case k < 94:
		g.hist("clause.Interface")
		return g.clauseI(depth - 1)
	case k < 97:
		g.hist("subquery")
		return g.subq(depth - 1)
	default:
		g.hist("raw-subquery")
		return g.rsub(depth - 1)
	}
}

// named-argument containers hold values of every kind (IN @ids, nil, Valuers, byte strings), not only scalars
func (g *c01Gen) cval() interface{} {
	switch g.rng.Intn(8) {
	case 0, 1:
		return g.list()
	case 2:
		return nil
	case 3:
		return []interface{}{"dv", g.rng.Intn(2) == 0, "s:" + c01Hostile[g.rng.Intn(len(c01Hostile))]}
	case 4:
		return g.bytes()
	default:
		return g.scalar()
	}
}

func (g *c01Gen) nmap() interface{} {
	return []interface{}{"m", []interface{}{"age", "name"}, []interface{}{g.cval(), g.cval()}}
}

func (g *c01Gen) person(gotype string) interface{} {
	return []interface{}{"st", []interface{}{[]interface{}{"Pname", false}, []interface{}{"Page", false}, []interface{}{"secret", false}},
		[]interface{}{[]interface{}{"s", "s:" + c01Hostile[g.rng.Intn(len(c01Hostile))]}, []interface{}{"s", "i:" + strconv.Itoa(g.rng.Intn(90))}, []interface{}{"s", "i:7"}}, gotype}
}

// struct / pointer to struct / embedded struct / embedded pointer (nil or not) / struct with values of any kind
func (g *c01Gen) strct() interface{} {
	ptr := ""
	if g.rng.Intn(2) == 0 {
		ptr = "*"
	}
	wrap := func(inner interface{}, gt string) interface{} {
		return []interface{}{"st", []interface{}{[]interface{}{"C01Person", true}, []interface{}{"Nick", false}},
			[]interface{}{inner, []interface{}{"s", "s:nick" + strconv.Itoa(g.rng.Intn(9))}}, gt}
	}
	switch g.rng.Intn(5) {
	case 0:
		g.hist("struct:" + ptr + "Person")
		return g.person(ptr + "Person")
	case 1:
		g.hist("struct:" + ptr + "Wrap")
		return wrap(g.person("Person"), ptr+"Wrap")
	case 2:
		g.hist("struct:" + ptr + "WrapP")
		if g.rng.Intn(4) == 0 {
			g.hist("struct:WrapP(nil embedded)")
			return wrap(nil, ptr+"WrapP")
		}
		return wrap(g.person("*Person"), ptr+"WrapP")
	default:
		g.hist("struct:" + ptr + "Args")
		return []interface{}{"st", []interface{}{[]interface{}{"Pname", false}, []interface{}{"Ids", false}, []interface{}{"Anyv", false}},
			[]interface{}{[]interface{}{"s", "s:" + c01Hostile[g.rng.Intn(len(c01Hostile))]}, g.list(), g.cval()}, ptr + "Args"}
	}
}

var c01Lits = []string{"name = ", "age > ", "email <> ", "z IS NOT NULL", "lower(name) = ", "'it''s'", "x.y", "1=1", "age", "COUNT(*)", "\"q\"", "`b`", "é"}

// template pieces with k placeholders ('?'), in and out of parentheses
func (g *c01Gen) tmpl(k int) string {
	var sb strings.Builder
	for i := 0; i < k; i++ {
		if i > 0 {
			sb.WriteString([]string{" AND ", " OR ", ", ", " and ", " "}[g.rng.Intn(5)])
		}
		switch g.rng.Intn(9) {
		case 0, 1, 2:
			sb.WriteString(c01Lits[g.rng.Intn(5)] + "?")
		case 3:
			sb.WriteString("age IN (?)")
		case 4:
			sb.WriteString("age IN ?")
		case 5:
			sb.WriteString("(? )")
		case 6:
			sb.WriteString("( ?)")
		case 7:
			sb.WriteString("name LIKE ? ESCAPE '!'")
		default:
			sb.WriteString("f(?)")
		}
	}
	if k == 0 || g.rng.Intn(4) == 0 {
		if k > 0 {
			sb.WriteString(" AND ")
		}
		sb.WriteString(c01Lits[g.rng.Intn(len(c01Lits))])
	}
	return sb.String()
}

func (g *c01Gen) expr(depth int) interface{} {
	k := g.rng.Intn(5)
	nargs := k
	switch g.rng.Intn(12) {
	case 0:
		nargs = k + 1 // surplus arg
		g.hist("expr:surplus-arg")
	case 1:
		if k > 0 {
			nargs = k - 1 // missing arg
			g.hist("expr:missing-arg")
		}
	}
	args := make([]interface{}, nargs)
	for i := range args {
		args[i] = g.val(depth)
	}
	wop := g.rng.Intn(6) == 0
	if wop {
		g.hist("expr:without-parentheses")
	}
	return []interface{}{"e", g.tmpl(k), args, wop}
}

var c01Terms = []string{" ", ",", ")", "\"", "'", "`", "\r", "\n", ";", ""}

func (g *c01Gen) nexpr(depth int) interface{} {
	names := []string{"name", "age", "n", "Pname", "Page", "Nick", "secret", "Ids", "Anyv", "C01Person", "zz", "na me"}
	var sb strings.Builder
	k := 1 + g.rng.Intn(4)
	used := []string{}
	for i := 0; i < k; i++ {
		if i > 0 {
			sb.WriteString([]string{" AND ", " OR ", ","}[g.rng.Intn(3)])
		}
		nm := names[g.rng.Intn(10)]
		used = append(used, nm)
		switch g.rng.Intn(8) {
		case 0:
			sb.WriteString("age IN (@" + nm + ")")
		case 1:
			sb.WriteString("(@" + nm + c01Terms[g.rng.Intn(len(c01Terms))])
		case 2:
			sb.WriteString("x = @" + nm + "@" + nm)
		case 3:
			sb.WriteString("y = ? ")
		case 4:
			sb.WriteString("e = 'a@" + nm + "'")
		case 5:
			sb.WriteString("f(?)")
		default:
			sb.WriteString("c = @" + nm + c01Terms[g.rng.Intn(len(c01Terms))])
		}
	}
	args := []interface{}{}
	switch g.rng.Intn(5) {
	case 0:
		g.hist("nexpr:map")
		args = append(args, g.nmap())
	case 1:
		g.hist("nexpr:struct")
		args = append(args, g.strct())
	case 2:
		g.hist("nexpr:mixed")
		if g.rng.Intn(2) == 0 {
			args = append(args, g.nmap(), []interface{}{"na", "name", g.val(depth)}, g.scalar())
		} else {
			args = append(args, g.strct(), []interface{}{"na", "Pname", g.val(depth)}, g.nmap())
		}
	default:
		g.hist("nexpr:sql.Named")
		for _, nm := range used {
			if g.rng.Intn(5) > 0 {
				args = append(args, []interface{}{"na", nm, g.val(depth)})
			}
		}
	}
	return []interface{}{"ne", sb.String(), args}
}

func (g *c01Gen) colOrExpr() interface{} {
	if g.rng.Intn(6) == 0 {
		return []interface{}{"e", "lower(name)", []interface{}{}, false}
	}
	return g.column()
}

func (g *c01Gen) cmp(depth int) interface{} {
	ops := []string{"eq", "eq", "eq", "neq", "neq", "gt", "gte", "lt", "lte", "like", "notlike"}
	return []interface{}{"cmp", ops[g.rng.Intn(len(ops))], g.colOrExpr(), g.val(depth)}
}

func (g *c01Gen) in(depth int) interface{} {
	n := g.rng.Intn(4)
	vs := make([]interface{}, n)
	for i := range vs {
		vs[i] = g.val(depth)
	}
	return []interface{}{"in", g.rng.Intn(3) == 0, g.colOrExpr(), vs}
}

func (g *c01Gen) setC(depth int) interface{} {
	n := 1 + g.rng.Intn(3)
	cols, vals := make([]interface{}, n), make([]interface{}, n)
	for i := range cols {
		cols[i] = g.column()
		vals[i] = g.val(depth)
	}
	return []interface{}{"set", cols, vals}
}

func (g *c01Gen) valuesC(depth int) interface{} {
	nc := g.rng.Intn(4)
	if g.rng.Intn(8) == 0 {
		nc = 6
	}
	cols := make([]interface{}, nc)
	for i := range cols {
		cols[i] = []interface{}{"col", "", "c" + strconv.Itoa(i), "", false}
	}
	nr := 1 + g.rng.Intn(3)
	rows := make([]interface{}, nr)
	for r := range rows {
		cells := make([]interface{}, nc)
		for i := range cells {
			cells[i] = g.val(depth)
		}
		rows[r] = []interface{}{"il", cells}
	}
	return []interface{}{"values", cols, rows}
}

func (g *c01Gen) limitC() interface{} {
	has := g.rng.Intn(4) > 0
	lim := g.rng.Intn(12) - 2
	off := g.rng.Intn(5) - 1
	if !has {
		lim = 0
	}
	return []interface{}{"limit", has, lim >= 0, "i:" + strconv.Itoa(lim), off > 0, "i:" + strconv.Itoa(off)}
}

func (g *c01Gen) conds(depth, max int) []interface{} {
	n := g.rng.Intn(max + 1)
	out := make([]interface{}, n)
	for i := range out {
		switch g.rng.Intn(4) {
		case 0:
			out[i] = g.cmp(depth)
		case 1:
			out[i] = g.nexpr(depth)
		default:
			out[i] = g.expr(depth)
		}
	}
	return out
}

func (g *c01Gen) onConflictC(depth int) interface{} {
	cons := ""
	if g.rng.Intn(5) == 0 {
		cons = "uq_x"
	}
	nc := g.rng.Intn(3)
	cols := make([]interface{}, nc)
	for i := range cols {
		cols[i] = []interface{}{"col", "", "k" + strconv.Itoa(i), "", false}
	}
	doNothing := g.rng.Intn(4) == 0
	var du interface{} = []interface{}{"set", []interface{}{}, []interface{}{}}
	if !doNothing {
		du = g.setC(depth)
	}
	return []interface{}{"oc", cons, cols, g.conds(depth, 2), doNothing, du, g.conds(depth, 2)}
}

func (g *c01Gen) whereC(depth int) interface{} {
	cs := g.conds(depth, 3)
	if len(cs) == 0 {
		cs = []interface{}{g.expr(depth)}
	}
	return []interface{}{"w", cs}
}

func (g *c01Gen) clauseI(depth int) interface{} {
	switch g.rng.Intn(5) {
	case 0:
		return []interface{}{"ci", "SET", g.setC(depth)}
	case 1:
		return []interface{}{"ci", "", g.limitC()}
	case 2:
		return []interface{}{"ci", "", g.valuesC(depth)}
	case 3:
		return []interface{}{"ci", "ON CONFLICT", g.onConflictC(depth)}
	default:
		return []interface{}{"ci", "WHERE", g.whereC(depth)}
	}
}

// simple condition for sub-queries: an Expr whose text has no AND/OR (so Where.Build adds no parentheses
// of its own; that structure belongs to C02) and as many args as '?'
func (g *c01Gen) simpleCond(depth int) interface{} {
	switch g.rng.Intn(4) {
	case 0:
		return []interface{}{"e", "age IN ?", []interface{}{g.typedList(g.listLen())}, false}
	case 1:
		return []interface{}{"e", "name = ? ", []interface{}{g.scalar()}, false}
	case 2:
		return []interface{}{"e", "z IS NULL", []interface{}{}, false}
	default:
		return []interface{}{"e", "f(?, ?) > 0", []interface{}{g.val(depth), g.scalar()}, false}
	}
}

func (g *c01Gen) subq(depth int) interface{} {
	names := []interface{}{"SELECT", "FROM"}
	var sel interface{} = []interface{}{"e", "*", []interface{}{}, false}
	if g.rng.Intn(2) == 0 {
		sel = []interface{}{"e", "age + ?", []interface{}{g.scalar()}, false}
	}
	es := []interface{}{sel, []interface{}{"tab", []string{"tt", "uu"}[g.rng.Intn(2)], "", false}}
	if n := g.rng.Intn(3); n > 0 {
		cs := make([]interface{}, n)
		for i := range cs {
			cs[i] = g.simpleCond(depth)
		}
		names = append(names, "WHERE")
		es = append(es, []interface{}{"w", cs})
	}
	if g.rng.Intn(4) == 0 {
		names = append(names, "")
		es = append(es, []interface{}{"limit", true, true, "i:" + strconv.Itoa(1+g.rng.Intn(9)), false, "i:0"})
	}
	return []interface{}{"sq", names, es}
}

// rendered sub-query: db.Raw(template, args…); text/vars are filled in from the real Raw by resolve()
func (g *c01Gen) rsub(depth int) interface{} {
	var inner []interface{}
	if g.rng.Intn(5) == 0 {
		inner = g.nexpr(depth).([]interface{})
		g.hist("raw-subquery:named")
	} else {
		inner = g.expr(depth).([]interface{})
	}
	tmpl := "SELECT id FROM uu WHERE " + inner[1].(string)
	return []interface{}{"rs", "", []interface{}{}, tmpl, inner[2]}
}

func (g *c01Gen) stmt(depth int) interface{} {
	switch g.rng.Intn(4) {
	case 0: // SELECT
		names := []interface{}{"SELECT", "FROM", "WHERE"}
		es := []interface{}{g.expr(depth), []interface{}{"tab", "tt", "", false}, g.whereC(depth)}
		if g.rng.Intn(2) == 0 {
			names = append(names, "ORDER BY")
			es = append(es, g.expr(depth))
		}
		if g.rng.Intn(2) == 0 {
			names = append(names, "")
			es = append(es, g.limitC())
		}
		return []interface{}{"cl", names, es}
	case 1: // UPDATE … SET … WHERE
		return []interface{}{"cl", []interface{}{"SET", "WHERE"}, []interface{}{g.setC(depth), g.whereC(depth)}}
	case 2: // INSERT … VALUES … ON CONFLICT
		return []interface{}{"cl", []interface{}{"", "ON CONFLICT"}, []interface{}{g.valuesC(depth), g.onConflictC(depth)}}
	default:
		return []interface{}{"cl", []interface{}{"WHERE", ""}, []interface{}{g.whereC(depth), g.limitC()}}
	}
}

func (g *c01Gen) top() interface{} {
	switch k := g.rng.Intn(20); {
	case k < 6:
		return g.expr(2)
	case k < 8:
		return g.nexpr(2)
	case k < 10:
		return g.stmt(1)
	case k == 10:
		return g.valuesC(1)
	case k == 11:
		return g.setC(1)
	case k == 12:
		return g.onConflictC(1)
	case k == 13:
		return g.whereC(1)
	case k == 14:
		return g.limitC()
	default:
		return g.val(2)
	}
}

// ---- correspondence suite -------------------------------------------------------------------------

type c01Out struct {
	SQL         string        `json:"sql"`
	Vars        []interface{} `json:"vars"`
	Phs         []int         `json:"phs"`
	Oof         bool          `json:"oof"`
	Unsupported bool          `json:"unsupported"`
	Wf          bool          `json:"wf"`   // Gorm.Bind.spec: the input is well formed
	Flat        []interface{} `json:"flat"` // Gorm.Bind.spec: the left-to-right flattening of the bound values
}

// c01PlainPlaceholders: placeholders of a text that holds no `?` / `$digits` inside literals (true for the texts of the
// correspondence generator; its NamedExpr terminator alphabet leaves UNBALANCED quotes, so the quote-aware e2e lexer
// is not usable here).  `?` -> 0, `$n` -> n.
func c01PlainPlaceholders(text string) []int {
	out := []int{}
	for i := 0; i < len(text); i++ {
		switch text[i] {
		case '?':
			out = append(out, 0)
		case '$':
			j := i + 1
			for j < len(text) && text[j] >= '0' && text[j] <= '9' {
				j++
			}
			if j > i+1 {
				n, _ := strconv.Atoi(text[i+1 : j])
				out = append(out, n)
				i = j - 1
			}
		}
	}
	return out
}

// c01SpecCheck: suite "spec" - whenever the SPECIFICATION (Model/BindSpec.lean) calls the input well formed, the REAL
// statement must bind exactly the specified flattening, with placeholders 1..n in order, inside the model.
func c01SpecCheck(r *Result, dialect string, in interface{}, m *c01Out, realSQL string, realVars []interface{}) {
	r.H("spec.wf", fmt.Sprint(m.Wf))
	if !m.Wf {
		return
	}
	r.Case("spec", dialect+canon(in), len(realVars) >= 1)
	bad := ""
	phs := c01PlainPlaceholders(realSQL)
	switch {
	case m.Oof || m.Unsupported:
		bad = "well formed but outside the model (oof / unsupported)"
	case canon(m.Flat) != canon(realVars):
		bad = "real Statement.Vars differ from the specified flattening"
	case len(phs) != len(realVars):
		bad = fmt.Sprintf("%d placeholders in the real text, %d bound values", len(phs), len(realVars))
	default:
		for k, p := range phs {
			if (dialect == "dollar" && p != k+1) || (dialect != "dollar" && p != 0) {
				bad = fmt.Sprintf("placeholder #%d of the real text is $%d", k+1, p)
				break
			}
		}
	}
	if bad != "" && strings.Contains(bad, "placeholder") && m.SQL == realSQL && len(m.Phs) == len(realVars) {
		// Latitude: lexing the text is ambiguous where a literal digit / `?` / `$` of the template touches a
		// placeholder (`$9` + `0` reads `$90`: seen only for doubly ill-formed rendered sub-queries, F21 inside db.Raw
		// plus a surplus `?`, which `spec` does not exclude yet).  When the real text is byte-identical to the model's
		// text, the model's structural placeholder list (Seg.ph, no lexing) decides.
		ok := true
		for k, p := range m.Phs {
			ok = ok && p == k+1
		}
		if ok {
			r.H("spec.lexer-ambiguity", "decided by Seg.ph")
			bad = ""
		}
	}
	if bad != "" {
		r.Violate(Violation{Kind: "correspondence", Suite: "spec", Input: map[string]interface{}{"dialect": dialect, "val": in},
			Observed: map[string]interface{}{"sql": realSQL, "vars": realVars},
			Expected: map[string]interface{}{"flat": m.Flat, "wf": m.Wf}, Note: "real gorm.Statement vs Lean Gorm.Bind.spec: " + bad})
	}
}

func c01Tag(j interface{}) string {
	if j == nil {
		return "nil"
	}
	return fmt.Sprint(j.([]interface{})[0])
}

func c01CountVars(j interface{}) int {
	return strings.Count(canon(j), `["s",`) // rough size measure for the histogram
}

func c01Compare(r *Result, dialect string, inputs []interface{}, suite string) {
	ctx := &c01Ctx{db: c01OpenDummy(dialect)}
	c01SubJSON = map[*gorm.DB]interface{}{}
	ops := make([][]interface{}, 0, len(inputs))
	type realOut struct {
		sql, pan string
		vars     []interface{}
	}
	reals := make([]realOut, len(inputs))
	for i, in := range inputs {
		func() {
			defer func() {
				if e := recover(); e != nil {
					reals[i].pan = "resolve: " + fmt.Sprint(e)
				}
			}()
			ctx.resolve(in)
		}()
		if reals[i].pan == "" {
			reals[i].sql, reals[i].vars, reals[i].pan = ctx.build(in)
		}
		ops = append(ops, []interface{}{"bind.render", dialect, in})
	}
	outs, err := AskLean(ops)
	if err != nil {
		r.Violate(Violation{Kind: "correspondence", Suite: suite, Note: err.Error()})
		return
	}
	for i, in := range inputs {
		var m c01Out
		if e := json.Unmarshal(outs[i], &m); e != nil {
			r.Violate(Violation{Kind: "correspondence", Suite: suite, Input: map[string]interface{}{"dialect": dialect, "val": in},
				Observed: string(outs[i]), Note: "model rejected the input (" + e.Error() + ")"})
			continue
		}
		r.CorrCompared++
		r.Case(suite, dialect+canon(in), len(reals[i].vars) >= 1)
		r.H(suite+".top", c01Tag(in))
		r.H(suite+".vars", c01Bucket(len(reals[i].vars)))
		if reals[i].pan != "" {
			// the real code panicked (malformed stream): the model has nothing to say; only counted
			r.H(suite+".real-panic", c01Trunc(reals[i].pan, 40))
			continue
		}
		if m.Unsupported {
			r.H(suite+".unsupported", c01Tag(in))
			continue
		}
		aligned := len(m.Phs) == len(m.Vars)
		for k, p := range m.Phs {
			if p != k+1 {
				aligned = false
			}
		}
		r.H(suite+".aligned(model)", fmt.Sprint(aligned))
		if i%997 == 0 {
			r.Sample(map[string]interface{}{"suite": suite, "dialect": dialect, "input": in, "sql": reals[i].sql, "vars": reals[i].vars})
		}
		c01SpecCheck(r, dialect, in, &m, reals[i].sql, reals[i].vars)
		if m.Oof || m.SQL != reals[i].sql || canon(m.Vars) != canon(reals[i].vars) {
			r.Violate(Violation{Kind: "correspondence", Suite: suite, Input: map[string]interface{}{"dialect": dialect, "val": in},
				Observed: map[string]interface{}{"sql": reals[i].sql, "vars": reals[i].vars},
				Expected: map[string]interface{}{"sql": m.SQL, "vars": m.Vars, "oof": m.Oof},
				Note:     "real gorm.Statement vs Lean Gorm.Bind.render"})
		}
	}
}

func c01Bucket(n int) string {
	switch {
	case n == 0:
		return "0"
	case n <= 2:
		return "1-2"
	case n <= 5:
		return "3-5"
	case n <= 9:
		return "6-9"
	default:
		return "10+"
	}
}

func init() {
	register("C01", func(r *Result, rng *rand.Rand, tier string) {
		n := 3000
		if tier == "thorough" {
			n = 150000
		} else if tier == "search" {
			n = 30000
		}
		for _, dialect := range []string{"qmark", "dollar"} {
			g := &c01Gen{rng: rng, hist: func(b string) { r.H("render.shape", b) }}
			inputs := make([]interface{}, 0, n)
			for i := 0; i < n; i++ {
				inputs = append(inputs, g.top())
			}
			for lo := 0; lo < len(inputs) && !expired(); lo += 20000 {
				hi := lo + 20000
				if hi > len(inputs) {
					hi = len(inputs)
				}
				c01Compare(r, dialect, inputs[lo:hi], "render")
			}
		}
	})
	replayers["C01/render"] = func(r *Result, input json.RawMessage) {
		var in struct {
			Dialect string      `json:"dialect"`
			Val     interface{} `json:"val"`
		}
		if err := json.Unmarshal(input, &in); err != nil {
			r.Note("bad replay input: %v", err)
			return
		}
		// main.go applies the -driver flag only after its replay branch: honour it here
		for i, a := range os.Args {
			if (a == "-driver" || a == "--driver") && i+1 < len(os.Args) {
				driverPath = os.Args[i+1]
			}
		}
		c01Compare(r, in.Dialect, []interface{}{in.Val}, "render")
	}
	replayers["C01/spec"] = replayers["C01/render"]
}

func c01Trunc(s string, n int) string {
	if len(s) > n {
		return s[:n]
	}
	return s
}
