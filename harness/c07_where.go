package main

// C07 correspondence suite "whereswap": which cells of a (shared) Exprs array clause.Where.Build assigns, real code vs
// Model.WhereSwap.  Every expression carries its original index as its bound value, so the order of the caller's slice
// after Build tells exactly which cells were written.

import (
	"encoding/json"
	"fmt"
	"math/rand"

	"gorm.io/gorm"
	"gorm.io/gorm/clause"
)

func init() {
	register("C07", c07WhereSwap)
}

type c07WsCase struct {
	Items []interface{} `json:"items"` // "or1" | "other" | [inner kinds]
	Forms []string      `json:"forms"` // concrete expression form per element (distribution)
}

func c07WsExpr(kind string, tag int, rng *rand.Rand) (clause.Expression, string) {
	e := clause.Expr{SQL: "c = ?", Vars: []interface{}{tag}}
	if kind == "or1" {
		return clause.Or(e), "Or(expr)"
	}
	switch rng.Intn(5) {
	case 0:
		return e, "Expr"
	case 1:
		return clause.Or(e, clause.Expr{SQL: "d = ?", Vars: []interface{}{tag}}), "Or(2)"
	case 2:
		return clause.And(e, clause.Expr{SQL: "d = ?", Vars: []interface{}{tag}}), "And(2)"
	case 3:
		return clause.Eq{Column: "c", Value: tag}, "Eq"
	default:
		return clause.Not(e), "Not"
	}
}

func c07WsTag(e clause.Expression) int {
	switch v := e.(type) {
	case clause.Expr:
		return v.Vars[0].(int)
	case clause.OrConditions:
		return c07WsTag(v.Exprs[0])
	case clause.AndConditions:
		return c07WsTag(v.Exprs[0])
	case clause.NotConditions:
		return c07WsTag(v.Exprs[0])
	case clause.Eq:
		return v.Value.(int)
	}
	return -1
}

func c07WhereSwap(r *Result, rng *rand.Rand, tier string) {
	if o := c07Only(); o != "" && o != "where" {
		return
	}
	n := 3000
	if tier == "thorough" {
		n = 30000
	}
	db, _, _ := OpenRec(nil)
	type built struct {
		c     c07WsCase
		exprs []clause.Expression // the array the loop is expected to run over (outer, or the group's members)
		outer []clause.Expression
	}
	var cases []built
	var ops [][]interface{}
	for i := 0; i < n; i++ {
		var b built
		group := rng.Intn(6) == 0
		ln := rng.Intn(6)
		var arr []clause.Expression
		var kinds []interface{}
		for k := 0; k < ln; k++ {
			kind := "other"
			if rng.Intn(2) == 0 {
				kind = "or1"
			}
			e, form := c07WsExpr(kind, k, rng)
			arr = append(arr, e)
			kinds = append(kinds, kind)
			b.c.Forms = append(b.c.Forms, form)
		}
		if group && ln >= 2 {
			b.outer = []clause.Expression{clause.AndConditions{Exprs: arr}}
			b.c.Items = []interface{}{kinds}
			b.exprs = arr
		} else {
			b.outer = arr
			b.c.Items = kinds
			if b.c.Items == nil {
				b.c.Items = []interface{}{}
			}
			b.exprs = arr
		}
		cases = append(cases, b)
		ops = append(ops, []interface{}{"where.swap", b.c.Items})
	}
	outs, err := AskLean(ops)
	if err != nil {
		r.Violate(Violation{Kind: "correspondence", Suite: "whereswap", Input: "batch", Observed: err.Error(), Expected: "lean driver answers"})
		return
	}
	for i, b := range cases {
		var m struct {
			Inner  bool  `json:"inner"`
			Perm   []int `json:"perm"`
			Writes []int `json:"writes"`
		}
		if json.Unmarshal(outs[i], &m) != nil {
			r.Violate(Violation{Kind: "correspondence", Suite: "whereswap", Input: b.c, Observed: string(outs[i]), Expected: "model output"})
			continue
		}
		stmt := &gorm.Statement{DB: db, Clauses: map[string]clause.Clause{}}
		clause.Where{Exprs: b.outer}.Build(stmt)
		got := []int{}
		for _, e := range b.exprs {
			got = append(got, c07WsTag(e))
		}
		if m.Perm == nil {
			m.Perm = []int{}
		}
		r.CorrCompared++
		r.Case("whereswap", canon(b.c.Items), len(m.Writes) > 0)
		r.H("whereswap.len", fmt.Sprint(len(b.exprs)))
		r.H("whereswap.model-branch", fmt.Sprintf("inner=%v writes=%v", m.Inner, len(m.Writes) > 0))
		for _, f := range b.c.Forms {
			r.H("whereswap.form", f)
		}
		if canon(got) != canon(m.Perm) {
			r.Violate(Violation{Kind: "correspondence", Suite: "whereswap", Input: b.c, Observed: got, Expected: m.Perm,
				Note: "order of the caller's Exprs array after clause.Where.Build differs from Model.WhereSwap"})
		}
	}
}
