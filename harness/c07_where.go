package main

// C07 correspondence suite "whereswap": which cells of a (shared) Exprs array clause.Where.Build assigns, real code vs
// Model.WhereSwap.  Every expression carries its original index as its bound value, so the order of the caller's slice
// after Build tells exactly which cells were written.

import (
	"encoding/json"
	"fmt"
	"math/rand"
	"path/filepath"

	"gorm.io/gorm"
	"gorm.io/gorm/clause"
)

func init() {
	register("C07", c07WhereSwap)
	replayers["C07/whereswap"] = func(r *Result, input json.RawMessage) {
		var c c07WsCase
		if json.Unmarshal(input, &c) != nil {
			return
		}
		if p := filepath.Join(c07Root(), "lean", ".lake", "build", "bin", "driver"); c07FileExists(p) {
			driverPath = p
		}
		outs, err := AskLean([][]interface{}{{"where.swap", c.Items}})
		if err != nil {
			r.Violate(Violation{Kind: "correspondence", Suite: "whereswap", Input: c, Observed: err.Error(), Expected: "lean driver answers"})
			return
		}
		db, _, _ := OpenRec(nil)
		c07WsJudge(r, db, c, outs[0])
	}
}

type c07WsCase struct {
	Items []interface{} `json:"items"` // "or1" | "other" | [inner kinds]
	Forms []string      `json:"forms"` // concrete expression form per element (distribution)
}

var c07WsForms = []string{"Expr", "Or(2)", "And(2)", "Eq", "Not"}

func c07WsExpr(kind string, tag int, rng *rand.Rand) (clause.Expression, string) {
	form := "Or(expr)"
	if kind != "or1" {
		form = c07WsForms[rng.Intn(len(c07WsForms))]
	}
	return c07WsExprOf(form, tag), form
}

func c07WsExprOf(form string, tag int) clause.Expression {
	e := clause.Expr{SQL: "c = ?", Vars: []interface{}{tag}}
	switch form {
	case "Or(expr)":
		return clause.Or(e)
	case "Expr":
		return e
	case "Or(2)":
		return clause.Or(e, clause.Expr{SQL: "d = ?", Vars: []interface{}{tag}})
	case "And(2)":
		return clause.And(e, clause.Expr{SQL: "d = ?", Vars: []interface{}{tag}})
	case "Eq":
		return clause.Eq{Column: "c", Value: tag}
	default:
		return clause.Not(e)
	}
}

// c07WsJudge: one case, real clause.Where.Build vs the model's answer
func c07WsJudge(r *Result, db *gorm.DB, c c07WsCase, out json.RawMessage) {
	var m struct {
		Inner  bool  `json:"inner"`
		Perm   []int `json:"perm"`
		Writes []int `json:"writes"`
	}
	if json.Unmarshal(out, &m) != nil {
		r.Violate(Violation{Kind: "correspondence", Suite: "whereswap", Input: c, Observed: string(out), Expected: "model output"})
		return
	}
	var arr []clause.Expression
	for k, f := range c.Forms {
		arr = append(arr, c07WsExprOf(f, k))
	}
	outer := arr
	if len(c.Items) == 1 {
		if _, isGroup := c.Items[0].([]interface{}); isGroup {
			outer = []clause.Expression{clause.AndConditions{Exprs: arr}}
		}
	}
	stmt := &gorm.Statement{DB: db, Clauses: map[string]clause.Clause{}}
	clause.Where{Exprs: outer}.Build(stmt)
	got := []int{}
	for _, e := range arr {
		got = append(got, c07WsTag(e))
	}
	if m.Perm == nil {
		m.Perm = []int{}
	}
	r.CorrCompared++
	r.Case("whereswap", canon(c.Items), len(m.Writes) > 0)
	r.H("whereswap.len", fmt.Sprint(len(arr)))
	r.H("whereswap.model-branch", fmt.Sprintf("inner=%v writes=%v", m.Inner, len(m.Writes) > 0))
	for _, f := range c.Forms {
		r.H("whereswap.form", f)
	}
	if canon(got) != canon(m.Perm) {
		r.Violate(Violation{Kind: "correspondence", Suite: "whereswap", Input: c, Observed: got, Expected: m.Perm,
			Note: "order of the caller's Exprs array after clause.Where.Build differs from Model.WhereSwap"})
	}
}

func c07WsTag(e clause.Expression) int {
	switch v := e.(type) {
	case clause.Expr:
		return v.Vars[0].(int)
	case clause.OrConditions:
		return c07WsTag(v.Exprs[0])
	case clause.AndConditions:
		return c07WsTag(v.Exprs[0])
	case clause.NotConditions:
		return c07WsTag(v.Exprs[0])
	case clause.Eq:
		return v.Value.(int)
	}
	return -1
}

func c07WhereSwap(r *Result, rng *rand.Rand, tier string) {
	if o := c07Only(); o != "" && o != "where" {
		return
	}
	n := 3000
	if tier == "thorough" {
		n = 30000
	}
	db, _, _ := OpenRec(nil)
	var cases []c07WsCase
	var ops [][]interface{}
	for i := 0; i < n; i++ {
		var c c07WsCase
		group := rng.Intn(6) == 0
		ln := rng.Intn(6)
		kinds := []interface{}{}
		for k := 0; k < ln; k++ {
			kind := "other"
			if rng.Intn(2) == 0 {
				kind = "or1"
			}
			_, form := c07WsExpr(kind, k, rng)
			kinds = append(kinds, kind)
			c.Forms = append(c.Forms, form)
		}
		if group && ln >= 2 {
			c.Items = []interface{}{kinds}
		} else {
			c.Items = kinds
		}
		cases = append(cases, c)
		ops = append(ops, []interface{}{"where.swap", c.Items})
	}
	outs, err := AskLean(ops)
	if err != nil {
		r.Violate(Violation{Kind: "correspondence", Suite: "whereswap", Input: "batch", Observed: err.Error(), Expected: "lean driver answers"})
		return
	}
	for i, c := range cases {
		c07WsJudge(r, db, c, outs[i])
	}
}
