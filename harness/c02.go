package main

// C02: chained conditions select exactly the rows of their logical combination.
//
// suites
//   where.build  (correspondence)  random clause.Expression trees: real clause.Where{…}.Build text vs Lean `whereBuild`
//   chain.render (correspondence)  random chains through the real Where/Not/Or API (DryRun Find): WHERE text vs Lean, and
//                                  the rows SQLite selects vs the Lean reference semantics `sqlEval` of the model's flat
//   rows         (e2e)             Find / Count / Update / Delete row sets on SQLite vs the Kleene evaluation of the
//                                  PROPERTY's reading of the chain (wcond.go), no model involved

import (
	"encoding/json"
	"fmt"
	"math/rand"
	"sort"
	"strings"

	"gorm.io/gorm"
	"gorm.io/gorm/clause"
	"gorm.io/gorm/logger"
	"gorm.io/gorm/utils/tests"
)

func dummyDB() *gorm.DB {
	db, err := gorm.Open(tests.DummyDialector{}, &gorm.Config{Logger: logger.Discard, DryRun: true})
	if err != nil {
		panic(err)
	}
	return db
}

func realWhereBuild(db *gorm.DB, exprs []clause.Expression) string {
	stmt := &gorm.Statement{DB: db, Table: "t", Clauses: map[string]clause.Clause{}}
	clause.Where{Exprs: exprs}.Build(stmt)
	return stmt.SQL.String()
}

func whereOf(sql string) string {
	i := strings.Index(sql, " WHERE ")
	if i < 0 {
		return ""
	}
	s := sql[i+7:]
	for _, stop := range []string{" ORDER BY ", " LIMIT "} {
		if j := strings.LastIndex(s, stop); j >= 0 {
			s = s[:j]
		}
	}
	return s
}

type c02Case struct {
	Seed  int64    `json:"seed"`
	Soft  bool     `json:"soft"`
	Rows  []string `json:"rows"`
	Chain []string `json:"chain"`
	Fin   string   `json:"finisher"`
	PK    int      `json:"pk,omitempty"`
}

func wIDsOf(rows []wRow, keep func(wRow) bool) []int {
	out := []int{}
	for _, r := range rows {
		if keep(r) {
			out = append(out, r.ID)
		}
	}
	return out
}

func sameInts(a, b []int) bool {
	if len(a) != len(b) {
		return false
	}
	for i := range a {
		if a[i] != b[i] {
			return false
		}
	}
	return true
}

// wantIDs: the id sets the property's reading permits (accept[0] = the strict reading)
//
// latitude (written here because the property leaves it open):
//   - `alt`  — Not over a multi-member AND unit none of whose members is a generated comparison may be the negation
//     of the whole unit (gorm writes NOT (a AND b)) instead of member-wise;
//   - the primary key of the model value is one more AND unit: either the last unit of the flat left-to-right
//     combination (so it binds to the last OR-run under standard precedence), or a conjunct of the whole chain
//     (what gorm's soft-delete regrouping yields) — both readings are accepted.
func wantIDs(w *wWorld, ch *wChain, rows []wRow, soft bool, unscoped bool, pk int) (accept [][]int, hasCond bool) {
	ch2 := ch
	if pk != 0 {
		pkAtom := &wAtom{Col: "id", Kind: "eq", Val: "scalar", ID: w.id(wPred{Col: "id", Op: "eq", Vals: []int{pk}})}
		ch2 = &wChain{Steps: append(append([]wStep{}, ch.Steps...), wStep{Op: "where", Form: &wForm{Kind: "col", Atoms: []*wAtom{pkAtom}}})}
	}
	sel := func(altMode, pkFlat bool) []int {
		return wIDsOf(rows, func(r wRow) bool {
			c := ch
			if pkFlat {
				c = ch2
			}
			v, ok := semCtx{w: w, r: r, alt: altMode}.chain(c)
			if ok && v != vT {
				return false
			}
			if soft && !unscoped && r.Deleted {
				return false
			}
			if pk != 0 && !pkFlat && r.ID != pk {
				return false
			}
			return true
		})
	}
	_, hasCond = semCtx{w: w, r: rows[0]}.chain(ch)
	for _, a := range []bool{false, true} {
		for _, p := range []bool{false, true} {
			accept = append(accept, sel(a, p))
		}
	}
	return accept, hasCond
}

func accepted(got []int, accept [][]int, countOnly bool) bool {
	for _, a := range accept {
		if countOnly && len(a) == len(got) || !countOnly && sameInts(a, got) {
			return true
		}
	}
	return false
}

// c02Flags: the decidable pattern predicates computed by the LEAN MODEL on the chain's expression list
// (Model/Where.lean `whereSound` = the hypothesis of the theorems, `anyMixedNot`)
type c02Flags struct {
	Sound    bool
	MixedNot bool
	OK       bool
}

func c02Classify(fl c02Flags) (string, bool) {
	if fl.OK && !fl.Sound {
		return "F1-C02-unit-not-parenthesised", listed("F1-C02-unit-not-parenthesised")
	}
	if fl.OK && fl.MixedNot {
		return "F8-C02-not-memberwise-over-or", listed("F8-C02-not-memberwise-over-or")
	}
	return "", false
}

// c02RunFinisher executes one finisher of a chain on a seeded table and returns the affected/returned ids
func c02RunFinisher(db *gorm.DB, ch *wChain, soft bool, fin string, pk int, rows []wRow) ([]int, error) {
	base := db.Session(&gorm.Session{})
	switch fin {
	case "find":
		if soft {
			var out []WSoft
			err := ch.apply(base).Order("id").Find(&out).Error
			ids := []int{}
			for _, o := range out {
				ids = append(ids, int(o.ID))
			}
			return ids, err
		}
		var out []WPlain
		err := ch.apply(base).Order("id").Find(&out).Error
		ids := []int{}
		for _, o := range out {
			ids = append(ids, int(o.ID))
		}
		return ids, err
	case "inline":
		// the last unit given as the finisher's inline condition
		last := ch.Steps[len(ch.Steps)-1]
		head := &wChain{Steps: ch.Steps[:len(ch.Steps)-1]}
		q, args := last.Form.Go(base)
		conds := append([]interface{}{q}, args...)
		ids := []int{}
		if soft {
			var out []WSoft
			err := head.apply(base).Order("id").Find(&out, conds...).Error
			for _, o := range out {
				ids = append(ids, int(o.ID))
			}
			return ids, err
		}
		var out []WPlain
		err := head.apply(base).Order("id").Find(&out, conds...).Error
		for _, o := range out {
			ids = append(ids, int(o.ID))
		}
		return ids, err
	case "first-inline", "delete-inline":
		// the last unit as the inline condition of First / Delete (for a key list: First(&x, ids) / Delete(&T{}, ids))
		last := ch.Steps[len(ch.Steps)-1]
		head := &wChain{Steps: ch.Steps[:len(ch.Steps)-1]}
		q, args := last.Form.Go(base)
		conds := append([]interface{}{q}, args...)
		if fin == "first-inline" {
			var res *gorm.DB
			var id uint
			if soft {
				var o WSoft
				res = head.apply(base).First(&o, conds...)
				id = o.ID
			} else {
				var o WPlain
				res = head.apply(base).First(&o, conds...)
				id = o.ID
			}
			if res.Error == gorm.ErrRecordNotFound {
				return []int{}, nil
			}
			return []int{int(id)}, res.Error
		}
		tx := base.Begin()
		defer tx.Rollback()
		if err := head.apply(tx).Delete(modelOf(soft), conds...).Error; err != nil {
			return nil, err
		}
		type rec struct {
			ID        int
			DeletedAt *string
		}
		var after []rec
		if e := tx.Session(&gorm.Session{NewDB: true}).Unscoped().Table(tableOf(soft)).Order("id").Find(&after).Error; e != nil {
			return nil, e
		}
		am := map[int]rec{}
		for _, a := range after {
			am[a.ID] = a
		}
		ids := []int{}
		for _, r := range rows {
			if a, ok := am[r.ID]; !ok || (soft && !r.Deleted && a.DeletedAt != nil) {
				ids = append(ids, r.ID)
			}
		}
		return ids, nil
	case "count":
		var n int64
		err := ch.apply(base.Model(modelOf(soft))).Count(&n).Error
		ids := make([]int, n) // only the number is observable
		return ids, err
	case "pluck":
		var ids []int
		err := ch.apply(base.Model(modelOf(soft))).Order("id").Pluck("id", &ids).Error
		if ids == nil {
			ids = []int{}
		}
		return ids, err
	case "firstpk", "takepk", "findpk":
		// the key of the value handed to a read finisher
		run := func(dst interface{}) *gorm.DB {
			switch fin {
			case "firstpk":
				return ch.apply(base).First(dst)
			case "takepk":
				return ch.apply(base).Take(dst)
			}
			return ch.apply(base).Find(dst)
		}
		var res *gorm.DB
		var id uint
		if soft {
			o := WSoft{ID: uint(pk)}
			res = run(&o)
			id = o.ID
		} else {
			o := WPlain{ID: uint(pk)}
			res = run(&o)
			id = o.ID
		}
		if res.Error == gorm.ErrRecordNotFound || res.Error == nil && res.RowsAffected == 0 {
			return []int{}, nil
		}
		return []int{int(id)}, res.Error
	case "update", "delete", "updatepk", "deletepk", "deletepk-model", "deletepk-both", "deletepk-same", "deletepk-unscoped", "deletepk-model-unscoped",
		"updatespk-value", "updatecolumnpk", "deleteslice", "updateslice":
		tx := base.Begin()
		defer tx.Rollback()
		var model interface{} = modelOf(soft)
		if pk != 0 {
			if soft {
				model = &WSoft{ID: uint(pk)}
			} else {
				model = &WPlain{ID: uint(pk)}
			}
		}
		keyed := func(k int) interface{} {
			if soft {
				return &WSoft{ID: uint(k)}
			}
			return &WPlain{ID: uint(k)}
		}
		var err error
		switch fin {
		case "deletepk-model":
			// the key is given through Model(..), the deleted value is empty
			err = ch.apply(tx.Model(model)).Delete(modelOf(soft)).Error
		case "deletepk-both":
			// the same key through Model(..) and through the deleted value (two distinct values)
			err = ch.apply(tx.Model(model)).Delete(keyed(pk)).Error
		case "deletepk-same":
			err = ch.apply(tx.Model(model)).Delete(model).Error
		case "deletepk-unscoped":
			err = ch.apply(tx.Unscoped()).Delete(model).Error
		case "deletepk-model-unscoped":
			err = ch.apply(tx.Unscoped().Model(model)).Delete(modelOf(soft)).Error
		case "updatespk-value":
			// no Model(..): the updating value itself carries the key
			v := 77
			if soft {
				err = ch.apply(tx).Updates(&WSoft{ID: uint(pk), B: &v}).Error
			} else {
				err = ch.apply(tx).Updates(&WPlain{ID: uint(pk), B: &v}).Error
			}
		case "updatecolumnpk":
			err = ch.apply(tx.Model(model)).UpdateColumn("b", 77).Error
		case "deleteslice", "updateslice":
			// a slice value: its keys form ONE IN unit
			var sl interface{}
			if soft {
				sl = &[]WSoft{{ID: uint(pk)}, {ID: uint(pk%len(rows) + 1)}}
			} else {
				sl = &[]WPlain{{ID: uint(pk)}, {ID: uint(pk%len(rows) + 1)}}
			}
			if fin == "deleteslice" {
				err = ch.apply(tx).Delete(sl).Error
			} else {
				err = ch.apply(tx.Model(sl)).Update("b", 77).Error
			}
		default:
			if strings.HasPrefix(fin, "update") {
				err = ch.apply(tx.Model(model)).Update("b", 77).Error
			} else {
				err = ch.apply(tx).Delete(model).Error
			}
		}
		if err != nil {
			return nil, err
		}
		// which rows changed?
		ids := []int{}
		type rec struct {
			ID        int
			B         *int
			DeletedAt *string
		}
		var after []rec
		if e := tx.Session(&gorm.Session{NewDB: true}).Unscoped().Table(tableOf(soft)).Order("id").Find(&after).Error; e != nil {
			return nil, e
		}
		am := map[int]rec{}
		for _, a := range after {
			am[a.ID] = a
		}
		for _, r := range rows {
			a, ok := am[r.ID]
			if strings.HasPrefix(fin, "update") {
				if ok && a.B != nil && *a.B == 77 {
					ids = append(ids, r.ID)
				}
			} else {
				if !ok || (soft && !r.Deleted && a.DeletedAt != nil) {
					ids = append(ids, r.ID)
				}
			}
		}
		return ids, nil
	}
	panic("unknown finisher " + fin)
}

func init() {
	// ---------------------------------------------------------------- where.build: expression trees
	register("C02", func(r *Result, rng *rand.Rand, tier string) {
		n := map[string]int{"quick": 4000, "thorough": 60000, "search": 20000}[tier]
		db := dummyDB()
		type item struct {
			es   []*wEx
			real string
		}
		var batch []item
		var ops [][]interface{}
		flush := func() {
			if len(ops) == 0 {
				return
			}
			res, err := AskLean(ops)
			if err != nil {
				r.Violate(Violation{Kind: "correspondence", Suite: "where.build", Note: err.Error()})
				ops, batch = nil, nil
				return
			}
			for i, it := range batch {
				var got string
				_ = json.Unmarshal(res[i], &got)
				r.CorrCompared++
				if got != it.real {
					js := make([]interface{}, 0)
					for _, e := range it.es {
						js = append(js, e.json())
					}
					r.Violate(Violation{Kind: "correspondence", Suite: "where.build", Input: js, Observed: it.real, Expected: got,
						Note: "clause.Where.Build text differs from Lean whereBuild"})
				}
			}
			ops, batch = nil, nil
		}
		for i := 0; i < n && !expired(); i++ {
			w := newWorld()
			cnt := 1 + rng.Intn(4)
			es := make([]*wEx, 0, cnt)
			for j := 0; j < cnt; j++ {
				es = append(es, genEx(rng, w, 2, exGenCfg{allowWeird: true, allowMixed: true, table: "t"}))
			}
			real := make([]clause.Expression, 0, cnt)
			js := make([]interface{}, 0, cnt)
			for _, e := range es {
				real = append(real, e.real())
				js = append(js, e.json())
			}
			sql := realWhereBuild(db, real)
			batch = append(batch, item{es, sql})
			ops = append(ops, []interface{}{"where.build", js})
			shape := fmt.Sprintf("n%d", cnt)
			r.H("where.build.len", shape)
			for _, e := range es {
				r.H("where.build.kind", e.Kind)
			}
			r.Case("where.build", sql, strings.Contains(sql, " AND ") && (strings.Contains(sql, " OR ") || strings.Contains(sql, "NOT ")))
			if len(ops) >= 2000 {
				flush()
			}
		}
		flush()
		// detector on random strings with random case/whitespace
		var dops [][]interface{}
		var texts []string
		for i := 0; i < n/4; i++ {
			g := &rawGen{rng: rng, w: newWorld(), weird: rng.Intn(3) == 0}
			_, txt := g.flat(1, 1+rng.Intn(3))
			texts = append(texts, txt)
			dops = append(dops, []interface{}{"detector", txt})
		}
		if res, err := AskLean(dops); err == nil {
			for i, t := range texts {
				var got bool
				_ = json.Unmarshal(res[i], &got)
				r.CorrCompared++
				// the real detector is observed through buildExprs: a two-member list wraps the raw member iff the detector fires
				sql := realWhereBuild(db, []clause.Expression{clause.Expr{SQL: t}, clause.Expr{SQL: "z"}})
				real := strings.HasPrefix(sql, "(")
				if strings.HasPrefix(t, "(") {
					real = strings.HasPrefix(sql, "((")
				}
				if got != real {
					r.Violate(Violation{Kind: "correspondence", Suite: "detector", Input: t, Observed: real, Expected: got})
				}
				r.H("detector", fmt.Sprint(real))
			}
		}
	})

	// ---------------------------------------------------------------- chains: text + SQLite rows vs Lean, and the e2e oracle
	register("C02", func(r *Result, rng *rand.Rand, tier string) {
		n := map[string]int{"quick": 700, "thorough": 8000, "search": 6000}[tier]
		c02Chains(r, rng, n, false)
	})

	// ---------------------------------------------------------------- the model value's primary key as a unit: composite keys
	register("C02", func(r *Result, rng *rand.Rand, tier string) {
		n := map[string]int{"quick": 150, "thorough": 2500, "search": 1500}[tier]
		for i := 0; i < n && !expired(); i++ {
			c02Composite(r, rng.Int63())
		}
	})
	replayers["C02/pk-composite"] = func(r *Result, input json.RawMessage) {
		var c c02Case
		if json.Unmarshal(input, &c) != nil {
			return
		}
		c02Composite(r, c.Seed)
	}

	replayers["C02/rows"] = func(r *Result, input json.RawMessage) {
		var c c02Case
		if json.Unmarshal(input, &c) != nil {
			return
		}
		c02One(r, c.Seed, c.Soft)
	}
}

// c02Chains: `softOnly` is used by C08 (soft-delete model, leading Or allowed)
func c02Chains(r *Result, rng *rand.Rand, n int, softOnly bool) {
	type job struct {
		seed int64
		soft bool
	}
	var jobs []job
	for i := 0; i < n; i++ {
		seed := rng.Int63()
		jobs = append(jobs, job{seed, softOnly || rng.Intn(4) == 0})
	}
	// the Lean model is asked for a whole batch of chains in ONE driver run (a process start per chain dominated the run time)
	for lo := 0; lo < len(jobs) && !expired(); lo += 250 {
		hi := lo + 250
		if hi > len(jobs) {
			hi = len(jobs)
		}
		var ask [][]interface{}
		for _, j := range jobs[lo:hi] {
			g := c02Gen(j.seed, j.soft, r.Property)
			ask = append(ask, g.ask, g.askPK)
		}
		if res, err := AskLean(ask); err == nil {
			for i, j := range jobs[lo:hi] {
				c02Cache[fmt.Sprint(r.Property, j.seed, j.soft)] = res[2*i]
				c02Cache[fmt.Sprint(r.Property, j.seed, j.soft, "pk")] = res[2*i+1]
			}
		}
		for _, j := range jobs[lo:hi] {
			if expired() {
				break
			}
			c02One(r, j.seed, j.soft)
			delete(c02Cache, fmt.Sprint(r.Property, j.seed, j.soft))
			delete(c02Cache, fmt.Sprint(r.Property, j.seed, j.soft, "pk"))
		}
	}
}

var c02Cache = map[string]json.RawMessage{}

type c02Generated struct {
	rng   *rand.Rand
	w     *wWorld
	rows  []wRow
	ch    *wChain
	ask   []interface{}
	pk    int           // the key of the model value used by the …pk finishers
	askPK []interface{} // the same chain followed by the key condition (the expression list those finishers render)
}

// c02Gen: everything about one case that is determined by its seed, and the question put to the Lean model
func c02Gen(seedMark int64, soft bool, prop string) *c02Generated {
	rng := rand.New(rand.NewSource(seedMark))
	w := newWorld()
	rows := genRows(rng, 6+rng.Intn(4), soft)
	cfg := chainGenCfg{exGenCfg: exGenCfg{allowWeird: rng.Intn(10) == 0, allowMixed: rng.Intn(10) == 0, table: tableOf(soft)},
		soft: soft, allowEmpty: true, leadingOr: prop == "C08"}
	ch := genChainN(rng, w, 1, 1+rng.Intn(4), cfg)
	var filter interface{}
	if soft {
		filter = map[string]interface{}{"col": "`w_softs`.`deleted_at`", "kind": "eq", "val": "nil", "id": w.id(wPred{Col: "deleted", Op: "null"})}
	}
	envs := make([]interface{}, len(rows))
	for i, x := range rows {
		e := w.env(x)
		if soft {
			// the soft-delete predicate: deleted_at IS NULL
			if x.Deleted {
				e[w.id(wPred{Col: "deleted", Op: "null"})] = "f"
			} else {
				e[w.id(wPred{Col: "deleted", Op: "null"})] = "t"
			}
		}
		envs[i] = e
	}
	pk := rows[rng.Intn(len(rows))].ID
	pkAtom := &wAtom{Col: "`id`", Kind: "eq", Val: "scalar", ID: w.id(wPred{Col: "id", Op: "eq", Vals: []int{pk}})}
	chPK := &wChain{Steps: append(append([]wStep{}, ch.Steps...), wStep{Op: "where", Form: &wForm{Kind: "col", Atoms: []*wAtom{pkAtom}}})}
	return &c02Generated{rng: rng, w: w, rows: rows, ch: ch, pk: pk,
		ask:   []interface{}{"chain.render", ch.json(), []interface{}{false, filter}, envs},
		askPK: []interface{}{"chain.render", chPK.json(), []interface{}{false, filter}, []interface{}{}}}
}

// c02One generates and judges one chain from its own PRNG (so a stored seed replays it exactly)
func c02One(r *Result, seedMark int64, soft bool) {
	prop := r.Property
	g := c02Gen(seedMark, soft, prop)
	w, rows, ch := g.w, g.rows, g.ch
	db, _, sqlDB := openW(rows, soft, nil)
	defer sqlDB.Close()
	rowStr := make([]string, len(rows))
	for i, x := range rows {
		rowStr[i] = x.String()
	}
	suite := "rows"
	mk := func(fin string, pk int) c02Case {
		return c02Case{Seed: seedMark, Soft: soft, Rows: rowStr, Chain: ch.desc(), Fin: fin, PK: pk}
	}
	_ = mk

	// --- correspondence: WHERE text of the real DryRun statement vs the Lean model; SQLite's selection vs Lean sqlEval
	dry := ch.apply(db.Session(&gorm.Session{DryRun: true})).Find(reflectSlice(soft))
	realWhere := whereOf(dry.Statement.SQL.String())
	var flags, flagsPK c02Flags
	var res []json.RawMessage
	var err error
	if raw, ok := c02Cache[fmt.Sprint(prop, seedMark, soft)]; ok {
		res = []json.RawMessage{raw, c02Cache[fmt.Sprint(prop, seedMark, soft, "pk")]}
	} else {
		res, err = AskLean([][]interface{}{g.ask, g.askPK})
	}
	if err == nil && len(res) > 1 {
		// the listed patterns are judged on the expression list a finisher really renders: for the …pk finishers that is
		// the chain's units followed by the key condition (a raw unit that is alone in the chain gets an operand next to it)
		var o struct {
			Sound    bool `json:"sound"`
			MixedNot bool `json:"mixedNot"`
		}
		if json.Unmarshal(res[1], &o) == nil {
			flagsPK = c02Flags{Sound: o.Sound, MixedNot: o.MixedNot, OK: true}
		}
	}
	realIDs, ferr := c02RunFinisher(db, ch, soft, "find", 0, rows)
	if err != nil {
		r.Violate(Violation{Kind: "correspondence", Suite: "chain.render", Input: ch.desc(), Note: err.Error()})
	} else {
		var out struct {
			SQL      string   `json:"sql"`
			Vals     []string `json:"vals"`
			Sound    bool     `json:"sound"`
			MixedNot bool     `json:"mixedNot"`
		}
		if json.Unmarshal(res[0], &out) != nil {
			r.Violate(Violation{Kind: "correspondence", Suite: "chain.render", Input: ch.desc(), Observed: string(res[0]), Note: "model rejected the chain"})
		} else {
			flags = c02Flags{Sound: out.Sound, MixedNot: out.MixedNot, OK: true}
			r.H("chain.sound", fmt.Sprint(out.Sound))
			r.CorrCompared++
			if out.SQL != realWhere {
				r.Violate(Violation{Kind: "correspondence", Suite: "chain.render", Input: mk("dryrun", 0), Observed: realWhere, Expected: out.SQL,
					Note: "WHERE text written by the real chain differs from the Lean model's rendering"})
			} else if ferr == nil && realWhere != "" {
				// reference semantics vs SQLite on this text
				var modelIDs []int
				for i, v := range out.Vals {
					if v == "t" {
						modelIDs = append(modelIDs, rows[i].ID)
					}
				}
				if modelIDs == nil {
					modelIDs = []int{}
				}
				r.CorrCompared++
				if !sameInts(modelIDs, realIDs) {
					r.Violate(Violation{Kind: "correspondence", Suite: "sqlEval", Input: mk("find", 0), Observed: realIDs, Expected: modelIDs,
						Note: "SQLite selects other rows for `" + realWhere + "` than the reference semantics of the model's flat"})
				}
			}
		}
	}

	// --- e2e: every finisher against the property's reading
	fins := []string{"find", "count", "pluck", "update", "delete"}
	if len(ch.Steps) > 0 && ch.Steps[len(ch.Steps)-1].Op == "where" {
		fins = append(fins, "inline", "first-inline")
		if ch.hasCond() && ch.Steps[len(ch.Steps)-1].Form.Kind != "empty" {
			fins = append(fins, "delete-inline")
		}
	}
	pk := g.pk
	// the model value's key: through Model(..), through the finisher's value, through both, for reads and writes
	fins = append(fins, "updatepk", "deletepk", "deletepk-model", "deletepk-both", "deletepk-same", "updatespk-value", "updatecolumnpk",
		"firstpk", "takepk", "findpk")
	if soft && prop != "C08" {
		fins = append(fins, "deletepk-unscoped", "deletepk-model-unscoped")
	}
	for _, fin := range fins {
		usePK := 0
		if strings.Contains(fin, "pk") {
			usePK = pk
		}
		accept, hasCond := wantIDs(w, ch, rows, soft, strings.HasSuffix(fin, "-unscoped"), usePK)
		strict := accept[0]
		if !hasCond && usePK == 0 && (strings.HasPrefix(fin, "update") || strings.HasPrefix(fin, "delete")) {
			continue // no effective condition: C09's territory
		}
		got, err := c02RunFinisher(db, ch, soft, fin, usePK, rows)
		key := fmt.Sprintf("%s|%v|%v", fin, ch.desc(), rowStr)
		nontrivial := strings.Contains(realWhere, " AND ") && (strings.Contains(realWhere, " OR ") || strings.Contains(realWhere, "NOT "))
		r.Case(suite, key, nontrivial)
		r.H("rows.finisher", fin)
		r.H("rows.units", fmt.Sprint(len(ch.Steps)))
		for _, s := range ch.Steps {
			r.H("rows.form", s.Op+":"+s.Form.Kind)
		}
		if err != nil {
			// a condition that the database rejects is a failure of the chain to express its units
			r.H("rows.error", trunc(err.Error(), 40))
			fl := flags
			if usePK != 0 {
				fl = flagsPK
			}
			id, isListed := c02Classify(fl)
			if id != "" && isListed {
				r.KnownFinding(id, "statement rejected by the database: "+trunc(err.Error(), 60))
				continue
			}
			r.Violate(Violation{Kind: "e2e", Suite: suite, Input: mk(fin, usePK), Observed: err.Error(), Expected: strict,
				Note: "WHERE " + realWhere})
			continue
		}
		if prop == "C08" {
			// C08 judges soft-delete visibility only (row-set exactness is C02's claim): no returned / updated /
			// re-deleted row may be one of the soft-deleted twins
			if fin != "count" {
				for _, id := range got {
					if id > len(rows)/2 {
						if !flags.Sound && listed("F2-C08-or-raw-regroup") {
							r.KnownFinding("F2-C08-or-raw-regroup", "a soft-deleted row is returned/affected by "+fin)
						} else {
							r.Violate(Violation{Kind: "e2e", Suite: suite, Input: mk(fin, usePK), Observed: got,
								Expected: "no soft-deleted id (ids above " + fmt.Sprint(len(rows)/2) + " are the soft-deleted twins)", Note: "WHERE " + realWhere})
						}
						break
					}
				}
			}
			continue
		}
		if accepted(got, accept, fin == "count") {
			continue
		}
		if fin == "firstpk" || fin == "takepk" || fin == "findpk" || fin == "first-inline" {
			// one row comes back: it must be one the reading permits (none when that set is empty)
			ok := false
			for _, a := range accept {
				if len(got) == 0 && len(a) == 0 || len(got) == 1 && len(a) > 0 && sort.SearchInts(a, got[0]) < len(a) && a[sort.SearchInts(a, got[0])] == got[0] {
					ok = true
				}
			}
			if ok {
				continue
			}
		}
		fl := flags
		if usePK != 0 {
			fl = flagsPK
		}
		id, isListed := c02Classify(fl)
		if id != "" && isListed {
			r.KnownFinding(id, "rows differ from the logical combination of the units")
			continue
		}
		sort.Ints(got)
		r.Violate(Violation{Kind: "e2e", Suite: suite, Input: mk(fin, usePK), Observed: got, Expected: strict,
			Note: "WHERE " + realWhere})
	}
	if len(r.Samples) < 4 {
		r.Sample(map[string]interface{}{"chain": ch.desc(), "where": realWhere})
	}
}

func reflectSlice(soft bool) interface{} {
	if soft {
		return &[]WSoft{}
	}
	return &[]WPlain{}
}

// WComp: composite primary key whose first member is called ID and is shared by sibling rows
type WComp struct {
	ID  uint   `gorm:"primaryKey;autoIncrement:false"`
	Loc string `gorm:"primaryKey"`
	A   *int
	B   *int
	S   *string
}

// c02Composite: "the primary key of the model value" is ONE more AND unit — every key column of it. Rows share key parts,
// so a condition built from a subset of the key columns selects sibling rows.
func c02Composite(r *Result, seed int64) {
	rng := rand.New(rand.NewSource(seed))
	w := newWorld()
	base := genRows(rng, 3+rng.Intn(3), false)
	locs := []string{"en", "zh", "de"}
	type crow struct {
		wRow
		Loc string
	}
	var rows []crow
	for _, b := range base {
		for _, l := range locs[:2+rng.Intn(2)] {
			x := b
			x.A, x.B = nil, nil
			if rng.Intn(5) > 0 {
				v := rng.Intn(4)
				x.A = &v
			}
			if rng.Intn(5) > 0 {
				v := rng.Intn(4)
				x.B = &v
			}
			rows = append(rows, crow{x, l})
		}
	}
	db, _, sqlDB := OpenRec(&gorm.Config{NowFunc: fixedNowFunc})
	defer sqlDB.Close()
	if err := db.AutoMigrate(&WComp{}); err != nil {
		panic(err)
	}
	for _, x := range rows {
		db.Create(&WComp{ID: uint(x.ID), Loc: x.Loc, A: x.A, B: x.B, S: x.S})
	}
	cfg := chainGenCfg{exGenCfg: exGenCfg{table: "w_comps"}, noStruct: true, allowEmpty: true}
	ch := genChainN(rng, w, 1, rng.Intn(3), cfg)
	target := rows[rng.Intn(len(rows))]
	key := func(x crow) string { return fmt.Sprintf("%d/%s", x.ID, x.Loc) }
	// accepted readings (see wantIDs): key as last flat AND unit / as conjunct of the whole chain, × the Not latitude
	var accept [][]string
	for _, alt := range []bool{false, true} {
		for _, pkFlat := range []bool{false, true} {
			var out []string
			for _, x := range rows {
				isKey := x.ID == target.ID && x.Loc == target.Loc
				c := ch
				if pkFlat {
					// the key as one more unit: both columns
					kv := vF
					if isKey {
						kv = vT
					}
					v, ok := semCtx{w: w, r: x.wRow, alt: alt}.chainThen(ch, kv)
					if ok && v == vT {
						out = append(out, key(x))
					}
					continue
				}
				v, ok := semCtx{w: w, r: x.wRow, alt: alt}.chain(c)
				if (!ok || v == vT) && isKey {
					out = append(out, key(x))
				}
			}
			sort.Strings(out)
			accept = append(accept, out)
		}
	}
	okSet := func(got []string) bool {
		sort.Strings(got)
		for _, a := range accept {
			if strings.Join(a, ",") == strings.Join(got, ",") {
				return true
			}
		}
		return false
	}
	rowStr := make([]string, len(rows))
	for i, x := range rows {
		rowStr[i] = key(x) + x.wRow.String()
	}
	model := func() *WComp { return &WComp{ID: uint(target.ID), Loc: target.Loc} }
	changed := func(tx *gorm.DB, del bool) []string {
		var after []WComp
		tx.Session(&gorm.Session{NewDB: true}).Order("id, loc").Find(&after)
		have := map[string]WComp{}
		for _, a := range after {
			have[fmt.Sprintf("%d/%s", a.ID, a.Loc)] = a
		}
		out := []string{}
		for _, x := range rows {
			a, ok := have[key(x)]
			if del && !ok || !del && ok && a.B != nil && *a.B == 77 {
				out = append(out, key(x))
			}
		}
		return out
	}
	for _, fin := range []string{"update", "updates-map", "updatecolumn", "updates-value", "delete", "delete-model", "delete-both", "delete-same", "first", "take"} {
		tx := db.Begin()
		var got []string
		var err error
		switch fin {
		case "update":
			err = ch.apply(tx.Model(model())).Update("b", 77).Error
			got = changed(tx, false)
		case "updates-map":
			err = ch.apply(tx.Model(model())).Updates(map[string]interface{}{"b": 77}).Error
			got = changed(tx, false)
		case "updatecolumn":
			err = ch.apply(tx.Model(model())).UpdateColumn("b", 77).Error
			got = changed(tx, false)
		case "updates-value":
			// no Model(..): the updating value carries the (composite) key
			v := 77
			m := model()
			m.B = &v
			err = ch.apply(tx).Updates(m).Error
			got = changed(tx, false)
		case "delete":
			err = ch.apply(tx).Delete(model()).Error
			got = changed(tx, true)
		case "delete-model":
			// the key through Model(..) only
			err = ch.apply(tx.Model(model())).Delete(&WComp{}).Error
			got = changed(tx, true)
		case "delete-both":
			err = ch.apply(tx.Model(model())).Delete(model()).Error
			got = changed(tx, true)
		case "delete-same":
			m := model()
			err = ch.apply(tx.Model(m)).Delete(m).Error
			got = changed(tx, true)
		case "first", "take":
			m := model()
			if fin == "first" {
				err = ch.apply(tx).First(m).Error
			} else {
				err = ch.apply(tx).Take(m).Error
			}
			if err == gorm.ErrRecordNotFound {
				err, got = nil, []string{}
			} else if err == nil {
				got = []string{fmt.Sprintf("%d/%s", m.ID, m.Loc)}
			}
		}
		tx.Rollback()
		r.Case("pk-composite", fmt.Sprint(fin, ch.desc(), rowStr), true)
		r.H("pk-composite.finisher", fin)
		if err != nil {
			r.H("pk-composite.error", trunc(err.Error(), 40))
			continue
		}
		if fin == "first" || fin == "take" {
			// First returns one row: it must be one the key reading permits (or none when that set is empty)
			ok := false
			for _, a := range accept {
				if len(got) == 0 && len(a) == 0 || len(got) == 1 && len(a) > 0 && contains(a, got[0]) {
					ok = true
				}
			}
			if ok {
				continue
			}
		} else if okSet(got) {
			continue
		}
		// is the chain one of the listed patterns (decided by the Lean model's predicates on the chain's expression list)?
		var flags c02Flags
		pkAtom := &wAtom{Col: "`id`", Kind: "eq", Val: "scalar", ID: w.id(wPred{Col: "id", Op: "eq", Vals: []int{target.ID}})}
		chPK := &wChain{Steps: append(append([]wStep{}, ch.Steps...), wStep{Op: "where", Form: &wForm{Kind: "col", Atoms: []*wAtom{pkAtom}}})}
		if res, e := AskLean([][]interface{}{{"chain.render", chPK.json(), []interface{}{false, nil}, []interface{}{}}}); e == nil {
			var out struct {
				Sound    bool `json:"sound"`
				MixedNot bool `json:"mixedNot"`
			}
			if json.Unmarshal(res[0], &out) == nil {
				flags = c02Flags{Sound: out.Sound, MixedNot: out.MixedNot, OK: true}
			}
		}
		if id, isListed := c02Classify(flags); id != "" && isListed {
			r.KnownFinding(id, "composite key: rows differ from the logical combination of the units")
			continue
		}
		r.Violate(Violation{Kind: "e2e", Suite: "pk-composite", Input: c02Case{Seed: seed, Rows: rowStr, Chain: ch.desc(), Fin: fin + " model key " + key(target)},
			Observed: got, Expected: accept[0], Note: "the model value's primary key (id AND loc) is one AND unit of the chain"})
	}
}

func contains(a []string, s string) bool {
	for _, x := range a {
		if x == s {
			return true
		}
	}
	return false
}
