package main

// C04 — program trees of Transaction blocks / manual Begin..Commit|Rollback / SavePoint / RollbackTo,
// executed on REAL gorm over SQLite behind the recording, fault-injecting driver.
//
// Program node (JSON array, the same text is sent to the Lean driver):
//   ["w", id, must]                       tx.Create(&TxItem{ID:id})
//   ["d", id, must]                       tx.Delete(&TxItem{}, id)
//   ["u", n, must]                        tx.Model(&TxItem{}).Where("1 = 1").Update("v", n)   (ids unchanged; model: a store-neutral write)
//   ["q", must]                           tx.Order("id").Find(&items)            (result recorded)
//   ["end", how, must]                    the transaction is ended UNDERNEATH the running function: how 0 = h.Rollback() inside the
//                                         function, 1 = the context the transaction was begun with is cancelled and the harness waits
//                                         until database/sql's watcher has rolled back (InUse == 0; needs an enclosing "keep:WithCancel"
//                                         derivation, else like 0), 2 = h.Commit() inside the function (end-to-end oracle only)
//   ["blk", [body…], out, tag, must]      h.Transaction(func(tx) error { body; out })   out 0=return nil 1=return userErr(tag) 2=panic(payload(tag))
//   ["man", [body…], fin, must]           tx := h.Begin(); …body…; fin 0 = tx.Commit() 1 = tx.Rollback()   (well-behaved caller, see runMan)
//   ["sp", name, must]                    h.SavePoint("m<name>")
//   ["rb", name, must]                    h.RollbackTo("m<name>")
//   ["dv", kind, arg, [body…], must]      h2 := <derive kind>(h); …body… on h2   (kind = "<class>:<Go derivation>", see c04Derive;
//                                         h itself is not touched; classes: keep prep newdb skiptx disnested chain where initialized debug)
//   ["fh", kind, tag, [body…], must]      h2 := a handle derived from h that ALREADY CARRIES AN ERROR; …body… on h2. kind (see runFh):
//                                         "adderr:Session" / "adderr:WithContext" = h.Session(&Session{}) / h.WithContext(ctx), then
//                                         h2.AddError(userErr(tag)); "firstmiss:First" = the handle RETURNED by h.First(&item, -1)
//                                         (gorm.ErrRecordNotFound, or the injected fault of its query). Everything issued through such
//                                         a handle is refused by gorm — by the caller's doing, not a matter of this property; what the
//                                         property still demands: nothing becomes durable, errors come back unchanged, NO CONNECTION LEAKS.
// must=true : an error of the child makes the enclosing function return that error at once; a panic propagates.
// must=false: the enclosing function ignores the child's error and recovers the child's panic, then continues.

import (
	"context"
	"database/sql"
	"database/sql/driver"
	"encoding/json"
	"errors"
	"fmt"
	"reflect"
	"sort"
	"strings"
	"time"

	sqlite3 "github.com/mattn/go-sqlite3"
	"gorm.io/driver/sqlite"
	"gorm.io/gorm"
	"gorm.io/gorm/logger"
)

type TxItem struct {
	ID int64 `gorm:"primaryKey;autoIncrement:false"`
	V  int64
}

// spDialector = stock SQLite dialector whose SavePoint/RollbackTo REPORT the error of the statement
// (the stock one — outside /repo — drops it; MySQL/Postgres dialectors report it like this one).
type spDialector struct{ sqlite.Dialector }

func (d spDialector) SavePoint(tx *gorm.DB, name string) error {
	return tx.Exec("SAVEPOINT " + name).Error
}
func (d spDialector) RollbackTo(tx *gorm.DB, name string) error {
	return tx.Exec("ROLLBACK TO SAVEPOINT " + name).Error
}

type c04Cfg struct {
	Prep bool `json:"prep"` // PrepareStmt
	Dis  bool `json:"dis"`  // DisableNestedTransaction
	Skip bool `json:"skip"` // SkipDefaultTransaction
	Wrap bool `json:"wrap"` // custom ConnPool (ConnPoolBeginner) whose transaction type is not *sql.Tx (c04_conn.go)
}

func (c c04Cfg) String() string {
	b := func(x bool) string {
		if x {
			return "1"
		}
		return "0"
	}
	return "prep" + b(c.Prep) + "dis" + b(c.Dis) + "skip" + b(c.Skip) + "wrap" + b(c.Wrap)
}

func c04Cfgs() []c04Cfg {
	var out []c04Cfg
	for i := 0; i < 16; i++ {
		out = append(out, c04Cfg{Prep: i&1 != 0, Dis: i&2 != 0, Skip: i&4 != 0, Wrap: i&8 != 0})
	}
	return out
}

type c04World struct {
	cfg    c04Cfg
	db     *gorm.DB
	rec    *Recorder
	sqlDB  *sql.DB
	tags   *c04Tags
	keeper *sql.DB // an unrecorded second pool holding ONE connection open: the shared in-memory database must survive
	//                connections that database/sql discards (driver.ErrBadConn from COMMIT, cancelled transaction contexts)
}

func c04Open(cfg c04Cfg) *c04World {
	n := atomicAddMem()
	dsn := fmt.Sprintf("file:verifc04mem%d?mode=memory&cache=shared", n)
	rec := &Recorder{}
	tags := &c04Tags{}
	sqlDB := sql.OpenDB(&c04Connector{inner: &recConnector{dsn: dsn, drv: &sqlite3.SQLiteDriver{}, rec: rec}, tags: tags})
	sqlDB.SetMaxIdleConns(4)
	keeper := sql.OpenDB(&recConnector{dsn: dsn, drv: &sqlite3.SQLiteDriver{}, rec: &Recorder{Off: true}})
	keeper.SetMaxOpenConns(1)
	if err := keeper.Ping(); err != nil {
		panic(err)
	}
	rec.Off = true
	var pool gorm.ConnPool = sqlDB
	if cfg.Wrap {
		pool = &c04Pool{db: sqlDB}
	}
	db, err := gorm.Open(spDialector{sqlite.Dialector{Conn: pool}}, &gorm.Config{
		Logger: logger.Discard, PrepareStmt: cfg.Prep, DisableNestedTransaction: cfg.Dis, SkipDefaultTransaction: cfg.Skip,
	})
	if err != nil {
		panic(err)
	}
	if err := db.AutoMigrate(&TxItem{}); err != nil {
		panic(err)
	}
	rec.Off = false
	return &c04World{cfg: cfg, db: db, rec: rec, sqlDB: sqlDB, tags: tags, keeper: keeper}
}

func (w *c04World) close() {
	w.sqlDB.Close()
	if w.keeper != nil {
		w.keeper.Close()
	}
}

// reset empties the table (not recorded). A previous run that left the database unusable (a lock held by a statement that
// escaped its transaction, …) must not take the whole check down: the world is replaced by a fresh one.
func (w *c04World) reset(initial []int64) {
	if err := w.tryReset(initial); err != nil {
		w.close()
		*w = *c04Open(w.cfg)
		if err := w.tryReset(initial); err != nil {
			panic(err)
		}
	}
}

func (w *c04World) tryReset(initial []int64) error {
	w.rec.mu.Lock()
	w.rec.Off = true
	w.rec.Fault = nil
	w.rec.mu.Unlock()
	if _, err := w.sqlDB.Exec("DELETE FROM tx_items"); err != nil {
		return err
	}
	for _, id := range initial {
		if _, err := w.sqlDB.Exec("INSERT INTO tx_items (id, v) VALUES (?, 0)", id); err != nil {
			return err
		}
	}
	w.rec.mu.Lock()
	w.rec.Off = false
	w.rec.Events = nil
	w.rec.mu.Unlock()
	w.tags.resetCount()
	return nil
}

func (w *c04World) dump() []int64 {
	w.rec.mu.Lock()
	w.rec.Off = true
	w.rec.mu.Unlock()
	defer func() { w.rec.mu.Lock(); w.rec.Off = false; w.rec.mu.Unlock() }()
	rows, err := w.sqlDB.Query("SELECT id FROM tx_items ORDER BY id")
	if err != nil {
		return []int64{-1}
	}
	defer rows.Close()
	out := []int64{}
	for rows.Next() {
		var id int64
		_ = rows.Scan(&id)
		out = append(out, id)
	}
	return out
}

func atomicAddMem() int64 {
	memMu.Lock()
	defer memMu.Unlock()
	memC04++
	return memC04
}

// ---------------------------------------------------------------- program trees

type c04Node struct {
	K    string
	Kind string // dv: "<class>:<derivation>"
	ID   int64  // w/d id, sp/rb name, blk tag, dv argument
	Body []*c04Node
	Out  int // blk: 0 nil 1 err 2 panic; man: 0 commit 1 rollback
	Must bool
}

func (n *c04Node) enc() []interface{} {
	switch n.K {
	case "w", "d", "sp", "rb", "u", "end":
		return []interface{}{n.K, n.ID, n.Must}
	case "q":
		return []interface{}{n.K, n.Must}
	case "blk":
		return []interface{}{n.K, c04EncBody(n.Body), n.Out, n.ID, n.Must}
	case "man":
		return []interface{}{n.K, c04EncBody(n.Body), n.Out, n.Must}
	case "dv", "fh":
		return []interface{}{n.K, n.Kind, n.ID, c04EncBody(n.Body), n.Must}
	}
	panic("bad node " + n.K)
}

func c04EncBody(b []*c04Node) []interface{} {
	out := make([]interface{}, 0, len(b))
	for _, c := range b {
		out = append(out, c.enc())
	}
	return out
}

func c04Dec(raw []interface{}) (*c04Node, error) {
	if len(raw) < 2 {
		return nil, errors.New("short node")
	}
	k, _ := raw[0].(string)
	num := func(i int) int64 { f, _ := raw[i].(float64); return int64(f) }
	bl := func(i int) bool { b, _ := raw[i].(bool); return b }
	n := &c04Node{K: k}
	switch k {
	case "w", "d", "sp", "rb", "u", "end":
		n.ID, n.Must = num(1), bl(2)
	case "q":
		n.Must = bl(1)
	case "dv", "fh":
		if len(raw) < 5 {
			return nil, errors.New("short dv node")
		}
		n.Kind, _ = raw[1].(string)
		n.ID = num(2)
		arr, _ := raw[3].([]interface{})
		for _, c := range arr {
			ca, _ := c.([]interface{})
			cn, err := c04Dec(ca)
			if err != nil {
				return nil, err
			}
			n.Body = append(n.Body, cn)
		}
		n.Must = bl(4)
	case "blk", "man":
		arr, _ := raw[1].([]interface{})
		for _, c := range arr {
			ca, _ := c.([]interface{})
			cn, err := c04Dec(ca)
			if err != nil {
				return nil, err
			}
			n.Body = append(n.Body, cn)
		}
		n.Out = int(num(2))
		if k == "blk" {
			n.ID, n.Must = num(3), bl(4)
		} else {
			n.Must = bl(3)
		}
	default:
		return nil, errors.New("bad kind " + k)
	}
	return n, nil
}

func c04DecBody(raw json.RawMessage) ([]*c04Node, error) {
	var arr []interface{}
	if err := json.Unmarshal(raw, &arr); err != nil {
		return nil, err
	}
	var out []*c04Node
	for _, c := range arr {
		ca, _ := c.([]interface{})
		n, err := c04Dec(ca)
		if err != nil {
			return nil, err
		}
		out = append(out, n)
	}
	return out, nil
}

// ---------------------------------------------------------------- interpreter on real gorm

type c04UserErr struct{ tag int64 }

func (e *c04UserErr) Error() string { return fmt.Sprintf("user%d", e.tag) }

type c04Payload struct{ tag int64 }

type c04InjErr struct{ k int }

func (e *c04InjErr) Error() string { return fmt.Sprintf("inj%d", e.k) }

// ---- VALUES. The model treats error values and panic payloads as opaque identities (`user t`, `inj k`, `panic t`); which Go
// value stands for an identity is chosen HERE, per case (c04Case.PK / EK), from alphabets that contain the values code could be
// tempted to special-case: sentinel errors, wrapped sentinels, comparable struct values, runtime errors, nil.

type c04ValErr struct{ tag int64 } // comparable struct implementing error by value

func (e c04ValErr) Error() string { return fmt.Sprintf("user%d", e.tag) }

type c04PanicErr struct{ tag int64 } // comparable struct implementing error, used as a panic payload

func (e c04PanicErr) Error() string { return fmt.Sprintf("panic-error-%d", e.tag) }

const c04NPayloadKinds = 11
const c04NUserErrKinds = 7
const c04NCommitErrKinds = 7

var c04PayloadKindNames = []string{"*struct", "string", "*errorString", "error-struct-value", "runtime:nil-deref", "runtime:index",
	"panic(nil)", "wrapped-sentinel-error", "int", "uncomparable-slice", "runtime:type-assertion"}
var c04UserErrKindNames = []string{"*struct", "sql.ErrTxDone", "wrapped(sql.ErrTxDone)", "gorm.ErrInvalidTransaction", "context.Canceled",
	"struct-value", "driver.ErrBadConn"}
var c04CommitErrKindNames = []string{"*c04InjErr", "sql.ErrTxDone", "sql.ErrConnDone", "driver.ErrBadConn", "context.Canceled",
	"context.DeadlineExceeded", "wrapped(sql.ErrTxDone)"}

// c04Same: identity for pointers, value equality for comparable values, deep equality for the rest (never panics)
func c04Same(a, b interface{}) (same bool) {
	defer func() {
		if recover() != nil {
			same = reflect.DeepEqual(a, b)
		}
	}()
	return a == b
}

// throwPayload panics with the payload of identity `tag`; runtime-error kinds are RAISED by the runtime, not constructed
func (x *c04Exec) throwPayload(tag int64) {
	kind := int((tag + int64(x.pk)) % c04NPayloadKinds)
	x.payloadKinds[c04PayloadKindNames[kind]]++
	switch kind {
	case 1:
		panic(fmt.Sprintf("payload-%d", tag))
	case 2:
		panic(x.payloadVal(tag, func() interface{} { return errors.New(fmt.Sprintf("payload-error-%d", tag)) }))
	case 3:
		panic(c04PanicErr{tag})
	case 4:
		var p *c04Payload
		_ = p.tag // nil dereference: runtime.Error
	case 5:
		idx := int(tag % 3)
		_ = []int{}[idx] // index out of range: runtime.Error
	case 6:
		panic(nil) // Go >= 1.21: recovered as *runtime.PanicNilError
	case 7:
		panic(x.payloadVal(tag, func() interface{} { return fmt.Errorf("payload-wrapped-%d: %w", tag, sql.ErrTxDone) }))
	case 8:
		panic(int(tag))
	case 9:
		panic([]int64{tag, tag})
	case 10:
		var i interface{} = "not an int"
		_ = i.(int) // failed type assertion: *runtime.TypeAssertionError
	}
	panic(x.payload(tag))
}

func (x *c04Exec) payloadVal(tag int64, mk func() interface{}) interface{} {
	if v, ok := x.payloadVals[tag]; ok {
		return v
	}
	v := mk()
	x.payloadVals[tag] = v
	return v
}

// thrown remembers which identity a recovered payload belongs to (first recovery = innermost function)
func (x *c04Exec) thrown(tag int64, v interface{}) {
	for _, t := range x.thrownVals {
		if c04Same(t.v, v) {
			return
		}
	}
	x.thrownVals = append(x.thrownVals, c04Thrown{tag, v})
}

func (x *c04Exec) payloadTag(v interface{}) (int64, bool) {
	for _, t := range x.thrownVals {
		if c04Same(t.v, v) {
			return t.tag, true
		}
	}
	return 0, false
}

type c04Thrown struct {
	tag int64
	v   interface{}
}

// userErrVal: the Go error value of identity `tag`; a raw sentinel can stand for one identity only (first come, first served)
func (x *c04Exec) userErrVal(tag int64) error {
	if e, ok := x.userVals[tag]; ok {
		return e
	}
	kind := int((tag + int64(x.pk)) % c04NUserErrKinds)
	var e error
	raw := func(v error) error {
		// a raw sentinel stands for ONE identity per run: not for two user errors, not for a user error and the commit fault
		switch x.ek % c04NCommitErrKinds {
		case 1:
			if v == sql.ErrTxDone {
				return fmt.Errorf("user%d: %w", tag, v)
			}
		case 3:
			if v == driver.ErrBadConn {
				return fmt.Errorf("user%d: %w", tag, v)
			}
		case 4:
			if v == context.Canceled {
				return fmt.Errorf("user%d: %w", tag, v)
			}
		}
		for _, u := range x.userVals {
			if u == v {
				return fmt.Errorf("user%d: %w", tag, v) // sentinel already taken: wrap it
			}
		}
		return v
	}
	switch kind {
	case 1:
		e = raw(sql.ErrTxDone)
	case 2:
		e = fmt.Errorf("user%d: %w", tag, sql.ErrTxDone)
	case 3:
		e = raw(gorm.ErrInvalidTransaction)
	case 4:
		e = raw(context.Canceled)
	case 5:
		e = c04ValErr{tag}
	case 6:
		e = raw(driver.ErrBadConn)
	default:
		e = x.userErr(tag)
	}
	x.userKinds[c04UserErrKindNames[kind]]++
	x.userVals[tag] = e
	return e
}

func (x *c04Exec) userTag(err error) (int64, bool) {
	if err == sql.ErrTxDone || err == gorm.ErrInvalidTransaction {
		return 0, false // raw sentinels gorm / database/sql produce themselves: read as "txDone" / "invalidTx" on both sides (c04ModelRes)
	}
	for t, u := range x.userVals {
		if c04Same(u, err) {
			return t, true
		}
	}
	return 0, false
}

// commitFaultVal: the value a failed COMMIT returns (other driver calls always fail with *c04InjErr)
func (x *c04Exec) commitFaultVal(k int) error {
	var e error
	switch x.ek % c04NCommitErrKinds {
	case 1:
		e = sql.ErrTxDone
	case 2:
		e = sql.ErrConnDone
	case 3:
		e = driver.ErrBadConn
	case 4:
		e = context.Canceled
	case 5:
		e = context.DeadlineExceeded
	case 6:
		e = fmt.Errorf("inj%d: %w", k, sql.ErrTxDone)
	default:
		e = &c04InjErr{k}
	}
	x.injVals = append(x.injVals, c04Inj{k, e})
	return e
}

type c04Inj struct {
	k int
	v error
}

type c04BlockObs struct {
	Path     string      // position of the block in the tree
	FnRan    bool        // fc was entered
	FnRet    string      // "nil" | "err" | "panic" | "" (not run)
	FnErr    error       // what fc returned
	FnPanic  interface{} // what fc panicked with
	Ret      error       // what Transaction returned
	Panicked bool        // Transaction panicked
	Payload  interface{}
}

type c04Exec struct {
	w        *c04World
	mask     map[int]bool
	allowRb  bool // inject also into ROLLBACK TO statements (boundary of the claim; correspondence only)
	calls    int  // logical driver calls so far
	trace    []string
	faulted  []string // kinds of the calls that were failed
	rbFault  bool     // a ROLLBACK TO statement was failed
	reads    [][]int64
	users    map[int64]*c04UserErr
	payloads map[int64]*c04Payload
	stale    bool // an operation was started on a handle whose sticky Error was already set
	blocks   []*c04BlockObs
	ref      c04Ref   // reference of the PROPERTY, advanced from the observed results of the primitive operations
	verdicts []string // property violations seen by the end-to-end oracle
	nFaulted int
	txof     []int   // per logical driver call: ordinal of the driver transaction it ran in (0 = outside any)
	txOrd    int     // ordinal of the driver transaction of the block / manual sequence being executed (0 = none)
	opInTx   bool    // the operation being executed was issued through a handle that belongs to that transaction
	escaped  bool    // (verdict already given)
	conds    []int64 // chained `id <> ?` conditions carried by the handle lineage being used
	disL     bool    // Session{DisableNestedTransaction: true} was applied in the handle lineage being used

	pk, ek       int // value alphabets of this case: payload / user-error kind offset, commit-fault value kind
	payloadVals  map[int64]interface{}
	thrownVals   []c04Thrown
	userVals     map[int64]error
	injVals      []c04Inj
	payloadKinds map[string]int
	userKinds    map[string]int
	reuse        bool                 // the handle being used is a chained (clone = 0) handle kept in a variable
	lastRes      *gorm.DB             // the *gorm.DB returned by the last Create (a chained handle, too)
	cancels      []context.CancelFunc // cancel functions of the enclosing "keep:WithCancel" derivations
	quirkB       map[int]bool         // failed implicit BEGINs issued through a reused chained handle outside a transaction
	ended        string               // the outermost transaction being executed was ended underneath: "" | "rollback" | "commit"
	endKinds     map[string]int
	updSeq       int64

	poisoned  bool           // the handle lineage being used carries an error the CALLER put there ("fh" node): refusals are legitimate
	stale18   bool           // a stale use OUTSIDE such a lineage: the handle's sticky error came from gorm itself (pattern of finding F18)
	f27       bool           // pattern of finding F27: Transaction / Begin was invoked outside a transaction on a handle that carries an error
	leaked    bool           // verdict "leak: …" was given
	failKinds map[string]int // "fh" nodes executed, by kind and site
}

func c04Tok(ev *Event) string {
	switch ev.Kind {
	case "begin":
		return "B"
	case "commit":
		return "C"
	case "rollback":
		return "R"
	case "exec", "stmt_exec", "query", "stmt_query":
		s := strings.ToUpper(strings.TrimSpace(ev.SQL))
		switch {
		case strings.HasPrefix(s, "SAVEPOINT"):
			return "S"
		case strings.HasPrefix(s, "ROLLBACK TO"):
			return "T"
		case strings.HasPrefix(s, "INSERT"), strings.HasPrefix(s, "DELETE"), strings.HasPrefix(s, "UPDATE"):
			return "W"
		case strings.HasPrefix(s, "SELECT"):
			return "Q"
		}
		return "?" + s
	}
	return "" // prepare / stmt_close: not a logical call
}

func (x *c04Exec) fault(idx int, ev *Event) error {
	t := c04Tok(ev)
	if t == "" {
		return nil
	}
	k := x.calls
	x.calls++
	_, ord := x.w.tags.tag()
	x.txof = append(x.txof, ord)
	// the PROPERTY, observed where it is decided: a write / save-point statement issued through the transaction's handle or
	// through any handle derived from it must arrive on the transaction's connection, inside its driver transaction —
	// otherwise the block's rollback cannot undo it and its commit does not cover it
	if x.opInTx && x.txOrd > 0 && ord != x.txOrd && (t == "W" || t == "S" || t == "T") && !x.escaped {
		x.escaped = true
		where := "on a pool connection outside any driver transaction"
		if ord != 0 {
			where = fmt.Sprintf("inside another driver transaction (#%d)", ord)
		}
		x.verdict("call %d (%s %q) was issued through a handle of transaction #%d but ran %s: it escapes the block's commit/rollback", k, t, ev.SQL, x.txOrd, where)
	}
	hit := x.mask[k] && t != "R" && (t != "T" || x.allowRb)
	if hit && t == "B" && x.reuse && !x.opInTx {
		x.quirkB[k] = true
	}
	if hit {
		x.trace = append(x.trace, t+"!")
		x.faulted = append(x.faulted, t)
		x.nFaulted++
		if t == "T" {
			x.rbFault = true
		}
		if t == "C" {
			return x.commitFaultVal(k)
		}
		return &c04InjErr{k}
	}
	x.trace = append(x.trace, t)
	return nil
}

func (x *c04Exec) userErr(tag int64) *c04UserErr {
	if e, ok := x.users[tag]; ok {
		return e
	}
	e := &c04UserErr{tag}
	x.users[tag] = e
	return e
}

func (x *c04Exec) payload(tag int64) *c04Payload {
	if p, ok := x.payloads[tag]; ok {
		return p
	}
	p := &c04Payload{tag}
	x.payloads[tag] = p
	return p
}

func (x *c04Exec) use(h *gorm.DB) {
	if h.Error != nil {
		x.stale = true
		if !x.poisoned {
			x.stale18 = true
		}
	}
}

// body runs the children in order on handle h; panics propagate
func (x *c04Exec) body(h *gorm.DB, inTx bool, path string, nodes []*c04Node) error {
	return x.bodyFrom(h, inTx, path, nodes, 0)
}

func (x *c04Exec) bodyFrom(h *gorm.DB, inTx bool, path string, nodes []*c04Node, from int) error {
	for i, n := range nodes {
		if i < from {
			continue
		}
		err := x.guarded(h, inTx, fmt.Sprintf("%s.%d", path, i), n)
		if err != nil && n.Must {
			return err
		}
	}
	return nil
}

func (x *c04Exec) guarded(h *gorm.DB, inTx bool, path string, n *c04Node) (err error) {
	if !n.Must {
		defer func() {
			if r := recover(); r != nil {
				err = nil
			}
		}()
	}
	return x.child(h, inTx, path, n)
}

func (x *c04Exec) child(h *gorm.DB, inTx bool, path string, n *c04Node) error {
	f0 := x.nFaulted
	x.opInTx = inTx
	switch n.K {
	case "dv":
		return x.runDv(h, inTx, path, n)
	case "fh":
		return x.runFh(h, inTx, path, n)
	case "w", "d":
		x.use(h)
		var err error
		done := true
		if n.K == "w" {
			res := h.Create(&TxItem{ID: n.ID})
			x.lastRes = res
			err = res.Error
		} else {
			hd := h
			if x.reuse {
				// on a chained handle kept in a variable an earlier Create left ITS record in Statement.Model, which Delete
				// would add to the WHERE; the caller names the model again (user code; getInstance returns the same handle)
				hd = h.Model(&TxItem{})
			}
			res := hd.Delete(&TxItem{}, n.ID)
			err = res.Error
			// the reference is advanced from the observed result of the operation: a DELETE that reports 0 rows (missing
			// key, or a key excluded by the handle's own chained conditions) removed nothing
			done = res.RowsAffected > 0
		}
		x.ref.write(inTx, n.K == "w", n.ID, err == nil && done)
		x.expectNilUnlessFaulted(path, n.K, err, f0)
		return err
	case "u":
		x.use(h)
		x.updSeq++
		err := h.Model(&TxItem{}).Where("1 = 1").Update("v", x.updSeq).Error
		x.expectNilUnlessFaulted(path, n.K, err, f0)
		return err
	case "end":
		return x.runEnd(h, inTx, path, n)
	case "q":
		x.use(h)
		var items []TxItem
		err := h.Order("id").Find(&items).Error
		x.expectNilUnlessFaulted(path, n.K, err, f0)
		if err != nil {
			return err
		}
		ids := []int64{}
		for _, it := range items {
			ids = append(ids, it.ID)
		}
		x.reads = append(x.reads, ids)
		// latitude: the property does not say whether conditions chained BEFORE Transaction/Begin/Session are carried by
		// the handles derived from it — both the filtered and the unfiltered view are accepted (the tie pins which one)
		// (Session{NewDB} only hides them until the next plain Session): every row of the reference must be seen except,
		// possibly, rows excluded by a condition chained somewhere in the handle's lineage; nothing else may be seen
		want := x.ref.view(inTx)
		okRead := true
		seen := map[int64]bool{}
		for _, id := range ids {
			seen[id] = true
		}
		inWant := map[int64]bool{}
		for _, id := range want {
			inWant[id] = true
			if !seen[id] && !c04Has(x.conds, id) {
				okRead = false
			}
		}
		for _, id := range ids {
			if !inWant[id] {
				okRead = false
			}
		}
		if !okRead {
			x.verdict("%s: read inside the program sees %v, the property's reference store is %v (chained conditions: id not in %v)", path, ids, want, x.conds)
		}
		return nil
	case "sp":
		x.use(h)
		err := h.SavePoint(fmt.Sprintf("m%d", n.ID)).Error
		if err == nil {
			x.ref.savepoint(fmt.Sprintf("m%d", n.ID), false)
		}
		x.expectNilUnlessFaulted(path, n.K, err, f0)
		return err
	case "rb":
		x.use(h)
		name := fmt.Sprintf("m%d", n.ID)
		live := x.ref.hasSp(name)
		err := h.RollbackTo(name).Error
		if err == nil {
			if !x.ref.rollbackTo(name) {
				x.verdict("%s: RollbackTo(%s) reported success although no such save point is live", path, name)
			}
		}
		if live {
			x.expectNilUnlessFaulted(path, n.K, err, f0)
		}
		return err
	case "blk":
		return x.runBlk(h, inTx, path, n)
	case "man":
		return x.runMan(h, inTx, path, n)
	}
	panic("bad node kind " + n.K)
}

func (x *c04Exec) verdict(format string, a ...interface{}) {
	x.verdicts = append(x.verdicts, fmt.Sprintf(format, a...))
}

// "leaves the enclosing transaction usable": an operation none of whose own driver calls was failed must succeed
// (generators never produce key conflicts; a RollbackTo of a name that is not live may fail legitimately)
func (x *c04Exec) expectNilUnlessFaulted(path, kind string, err error, f0 int) {
	if x.poisoned {
		return // the caller put an error into this handle lineage: gorm refuses every operation through it, legitimately
	}
	if x.ended != "" && x.opInTx {
		return // the transaction was ended underneath the function: its handles legitimately answer sql.ErrTxDone / a context error
	}
	if err != nil && x.nFaulted == f0 {
		x.verdict("%s: %s returned %q although none of its driver calls failed (handle unusable)", path, kind, err.Error())
	}
}

// commitSince reports whether a COMMIT was issued after trace position p and whether it succeeded
func (x *c04Exec) commitSince(p int) (issued, ok bool) {
	for _, t := range x.trace[p:] {
		if t == "C" {
			return true, true
		}
		if t == "C!" {
			return true, false
		}
	}
	return false, false
}

func (x *c04Exec) isInjected(err error) bool {
	var ie *c04InjErr
	if errors.As(err, &ie) {
		return true
	}
	for _, iv := range x.injVals {
		if errors.Is(err, iv.v) {
			return true
		}
	}
	return false
}

func (x *c04Exec) runBlk(h *gorm.DB, inTx bool, path string, n *c04Node) (ret error) {
	x.use(h)
	if !inTx && h.Error != nil {
		x.f27 = true
	}
	poisoned := x.poisoned
	f0 := x.nFaulted
	obs := &c04BlockObs{Path: path}
	x.blocks = append(x.blocks, obs)
	nested := inTx
	dis := x.w.cfg.Dis || x.disL // Open-time configuration, or Session{DisableNestedTransaction: true} on the way to this handle
	var mark int
	fnEndTrace := -1
	// judge on the way out (normal return or panic)
	done := false
	defer func() {
		var r interface{}
		if !done {
			r = recover()
			obs.Panicked, obs.Payload = true, r
		}
		obs.Ret = ret
		if !nested {
			x.txOrd = 0
		}
		x.opInTx = inTx
		x.judgeBlk(path, nested, dis, poisoned, obs, mark, fnEndTrace, f0)
		if !nested {
			x.ended = ""
		}
		if !done {
			panic(r)
		}
	}()
	ret = h.Transaction(func(tx *gorm.DB) (ferr error) {
		obs.FnRan = true
		obs.FnRet = "panic"
		if nested {
			mark = x.ref.enterNested(dis)
		} else {
			x.ref.begin()
			x.ended = ""
			x.w.tags.mu.Lock()
			x.txOrd = x.w.tags.nBegun
			x.w.tags.mu.Unlock()
		}
		defer func() {
			fnEndTrace = len(x.trace)
			if obs.FnRet == "panic" {
				r := recover()
				obs.FnPanic = r
				x.thrown(n.ID, r) // (a payload coming up from a child is already registered under the child's identity)
				panic(r)
			}
		}()
		if e := x.body(tx, true, path, n.Body); e != nil {
			obs.FnRet, obs.FnErr = "err", e
			return e
		}
		switch n.Out {
		case 1:
			e := x.userErrVal(n.ID)
			obs.FnRet, obs.FnErr = "err", e
			return e
		case 2:
			x.throwPayload(n.ID)
		}
		if tx.Error != nil {
			x.stale = true // returning nil on a handle whose Error is set: gorm will Commit on it
			if !x.poisoned {
				x.stale18 = true
			}
		}
		obs.FnRet = "nil"
		return nil
	})
	done = true
	return ret
}

// judgeBlk: the PROPERTY for one block, from what was observed at its boundary (not from gorm's algorithm):
//   function returned nil  → (top level) a COMMIT must be issued; commit ok → everything kept, Transaction returns nil;
//                            commit failed → nothing kept, Transaction returns that failure
//                            (nested) everything kept in the parent, Transaction returns nil
//   function returned err  → nothing of the block kept, Transaction returns the SAME error value
//   function panicked      → nothing of the block kept, Transaction panics with the SAME payload
//   function not run       → BEGIN / SAVEPOINT failed: Transaction returns an error, nothing changes
// "nothing kept" for a nested block under DisableNestedTransaction means: it undoes nothing by itself.
func (x *c04Exec) judgeBlk(path string, nested, dis, poisoned bool, obs *c04BlockObs, mark, fnEnd, f0 int) {
	if !obs.FnRan {
		if obs.Panicked {
			x.verdict("%s: Transaction panicked (%v) before running the function", path, obs.Payload)
		} else if obs.Ret == nil {
			x.verdict("%s: Transaction returned nil without running the function", path)
		} else if poisoned {
			// invoked on a handle that carries the caller's own error: refusing to start is legitimate (the error comes back)
		} else if x.nFaulted == f0 && !(nested && x.ended != "") {
			x.verdict("%s: Transaction refused to start (%q) although no driver call failed (handle unusable)", path, obs.Ret.Error())
		}
		return
	}
	keep := false
	switch obs.FnRet {
	case "nil":
		if nested {
			keep = true
			if obs.Panicked || obs.Ret != nil {
				x.verdict("%s: nested function returned nil but Transaction returned %v / panicked=%v", path, obs.Ret, obs.Panicked)
			}
		} else if x.ended != "" {
			// the transaction was ended UNDERNEATH a function that returns nil. Rolled back (Rollback inside the function,
			// cancelled context): nothing of the block is durable, so Transaction must not report success — any non-nil
			// error is accepted. Committed by the function itself: everything is durable already; the property does not say
			// what Transaction returns then (nil or the error of its own, impossible, commit) — only that it does not panic.
			if obs.Panicked {
				x.verdict("%s: function returned nil but Transaction panicked (%v)", path, obs.Payload)
			} else if x.ended == "rollback" && obs.Ret == nil {
				x.verdict("%s: the transaction had been rolled back underneath the function (nothing is durable) and the function returned nil, but Transaction returned nil: a commit that did not happen is reported as success", path)
			}
		} else {
			issued, ok := x.commitSince(fnEnd)
			switch {
			case !issued:
				x.verdict("%s: function returned nil but no COMMIT was issued", path)
			case ok:
				keep = true
				if obs.Panicked || obs.Ret != nil {
					x.verdict("%s: function returned nil and COMMIT succeeded but Transaction returned %v / panicked=%v", path, obs.Ret, obs.Panicked)
				}
			default:
				if obs.Panicked || obs.Ret == nil || !x.isInjected(obs.Ret) {
					x.verdict("%s: COMMIT failed but Transaction returned %v (panicked=%v)", path, obs.Ret, obs.Panicked)
				}
			}
		}
	case "err":
		if obs.Panicked || !c04Same(obs.Ret, obs.FnErr) {
			x.verdict("%s: function returned error %v, Transaction returned %v (panicked=%v): not the same value", path, obs.FnErr, obs.Ret, obs.Panicked)
		}
	case "panic":
		if !obs.Panicked || !c04Same(obs.Payload, obs.FnPanic) {
			x.verdict("%s: function panicked with %v, Transaction panicked=%v payload %v: not the same value", path, obs.FnPanic, obs.Panicked, obs.Payload)
		}
	}
	if nested {
		x.ref.leaveNested(mark, keep, dis)
	} else {
		x.ref.end(keep)
	}
}

// runMan: a WELL-BEHAVED caller of the manual API (this is user code, not gorm code):
//   tx := h.Begin(); if tx.Error != nil { return tx.Error }
//   done := false; defer func() { if !done { r := recover(); tx.Rollback(); panic(r) } }()
//   if err := body(tx); err != nil { tx.Rollback(); return err }
//   return tx.Commit().Error   |   return tx.Rollback().Error
func (x *c04Exec) runMan(h *gorm.DB, inTx bool, path string, n *c04Node) error {
	x.use(h)
	if !inTx && h.Error != nil {
		x.f27 = true
	}
	f0 := x.nFaulted
	tx := h.Begin()
	if tx.Error != nil {
		if !inTx && x.nFaulted == f0 && !x.poisoned {
			x.verdict("%s: Begin failed (%q) although no driver call failed", path, tx.Error.Error())
		}
		return tx.Error
	}
	if inTx {
		x.verdict("%s: Begin on a transaction handle succeeded", path)
	}
	x.ref.begin()
	x.ended = ""
	x.w.tags.mu.Lock()
	x.txOrd = x.w.tags.nBegun
	x.w.tags.mu.Unlock()
	defer func() { x.txOrd = 0; x.opInTx = inTx; x.ended = "" }()
	bodyDone := false
	defer func() {
		if !bodyDone { // (not `recover() != nil`: go.mod < 1.21 keeps panic(nil) recoverable as nil)
			r := recover()
			tx.Rollback()
			x.ref.end(false)
			panic(r)
		}
	}()
	berr := x.body(tx, true, path, n.Body)
	bodyDone = true
	if err := berr; err != nil {
		tx.Rollback()
		x.ref.end(false)
		return err
	}
	if tx.Error != nil {
		x.stale = true
		if !x.poisoned {
			x.stale18 = true
		}
	}
	if n.Out == 0 {
		p := len(x.trace)
		err := tx.Commit().Error
		issued, ok := x.commitSince(p)
		switch {
		case x.ended != "":
			if x.ended == "rollback" && err == nil {
				x.verdict("%s: tx.Commit() returned nil although the transaction had been rolled back underneath", path)
			}
		case !issued:
			x.verdict("%s: tx.Commit() issued no COMMIT", path)
		case ok && err != nil:
			x.verdict("%s: COMMIT succeeded but tx.Commit() returned %q", path, err.Error())
		case !ok && err == nil:
			x.verdict("%s: COMMIT failed but tx.Commit() returned nil", path)
		}
		if x.ended == "" {
			x.ref.end(issued && ok)
		}
		return err
	}
	err := tx.Rollback().Error
	x.ref.end(false)
	if err != nil && x.ended == "" {
		x.verdict("%s: tx.Rollback() returned %q", path, err.Error())
	}
	return err
}

// ---------------------------------------------------------------- reference of the property (snapshot stack)

type c04Sp struct {
	name string
	auto bool
	snap map[int64]bool
}

type c04Ref struct {
	committed map[int64]bool
	inTx      bool
	cur       map[int64]bool
	saves     []c04Sp
	autoSeq   int
}

func cpSet(m map[int64]bool) map[int64]bool {
	o := make(map[int64]bool, len(m))
	for k, v := range m {
		if v {
			o[k] = true
		}
	}
	return o
}

func (r *c04Ref) begin() { r.inTx, r.cur, r.saves = true, cpSet(r.committed), nil }
func (r *c04Ref) end(keep bool) {
	if keep {
		r.committed = r.cur
	}
	r.inTx, r.cur, r.saves = false, nil, nil
}
func (r *c04Ref) view(inTx bool) []int64 {
	if inTx && r.inTx {
		return sortedInts(r.cur)
	}
	return sortedInts(r.committed)
}
func (r *c04Ref) write(inTx, ins bool, id int64, ok bool) {
	if !ok {
		return
	}
	m := r.committed
	if inTx && r.inTx {
		m = r.cur
	}
	if ins {
		m[id] = true
	} else {
		delete(m, id)
	}
}
func (r *c04Ref) savepoint(name string, auto bool) {
	r.saves = append(r.saves, c04Sp{name: name, auto: auto, snap: cpSet(r.cur)})
}
func (r *c04Ref) hasSp(name string) bool {
	for _, s := range r.saves {
		if s.name == name {
			return true
		}
	}
	return false
}

// rollbackTo: the most recent live save point of that name; later ones are gone, it stays
func (r *c04Ref) rollbackTo(name string) bool {
	for i := len(r.saves) - 1; i >= 0; i-- {
		if r.saves[i].name == name {
			r.cur = cpSet(r.saves[i].snap)
			r.saves = r.saves[:i+1]
			return true
		}
	}
	return false
}

// enterNested remembers the store at the entry of a nested block (as an anonymous marker on the save-point stack)
func (r *c04Ref) enterNested(disabled bool) int {
	r.autoSeq++
	if !disabled {
		r.savepoint(fmt.Sprintf("#%d", r.autoSeq), true)
	}
	return r.autoSeq
}

// leaveNested: a failing nested block undoes exactly its own writes (nothing when nested transactions are disabled, and
// nothing more if a RollbackTo to an older save point already removed them together with the block's marker)
func (r *c04Ref) leaveNested(mark int, keep, disabled bool) {
	if keep || disabled {
		return
	}
	r.rollbackTo(fmt.Sprintf("#%d", mark))
}

type c04Obs struct {
	Store  []int64       `json:"store"`
	Res    []interface{} `json:"res"` // ["ok"] | ["err", atoms…] | ["panic", tag]
	Open   int64         `json:"open"`
	InUse  int           `json:"inuse"`
	Trace  []string      `json:"trace"`
	TxOf   []int         `json:"txof"`
	Reads  [][]int64     `json:"reads"`
	Stale  bool          `json:"stale"`
	exec     *c04Exec
	retErr   error
	retPan   interface{}
	panicked bool
}

// errAtoms: like c04ErrAtoms, but a piece that is the text of the value a failed COMMIT of this run returned is that
// injected value (`inj<k>`), whatever Go value stood for it
func (x *c04Exec) errAtoms(err error) []interface{} {
	out := c04ErrAtoms(err)
	if err == nil {
		return out
	}
	// gorm quirk on a chained handle REUSED outside a transaction (not a matter of this property): the Statement keeps the
	// "gorm:started_transaction" mark of its previous operation, so when the implicit BEGIN of the next one fails,
	// CommitOrRollbackTransaction still calls Rollback on the pool and ErrInvalidTransaction is joined to the BEGIN error
	for i := 0; i+1 < len(out); i++ {
		var k int
		if s, ok := out[i].(string); ok && out[i+1] == "invalidTx" {
			if _, e := fmt.Sscanf(s, "inj%d", &k); e == nil && x.quirkB[k] {
				out = append(out[:i+1], out[i+2:]...)
			}
		}
	}
	pieces := strings.Split(err.Error(), "; ")
	// a user error that went through AddError ("fh" nodes) comes back JOINED to others ("%v; %w"): its identity is its text
	for i, piece := range pieces {
		for t, u := range x.userVals {
			if i < len(out) && u.Error() == piece && u != error(sql.ErrTxDone) && u != error(gorm.ErrInvalidTransaction) {
				out[i] = fmt.Sprintf("user%d", t)
			}
		}
	}
	switch ek := x.ek % c04NCommitErrKinds; {
	case ek == 1:
		return out // the injected value IS sql.ErrTxDone: indistinguishable from a genuine one, both read "txDone" (see c04ModelRes)
	case ek >= 2 && ek <= 5:
		// one shared sentinel stands for every failed COMMIT of the run: which COMMIT it was is pinned by the trace
		for i, piece := range pieces {
			if len(x.injVals) > 0 && piece == x.injVals[0].v.Error() && i < len(out) {
				out[i] = "cfault"
			}
		}
		return out
	}
	used := map[int]bool{}
	for i, piece := range pieces {
		for j, iv := range x.injVals {
			if !used[j] && iv.v.Error() == piece && i < len(out) {
				used[j] = true
				out[i] = fmt.Sprintf("inj%d", iv.k)
				break
			}
		}
	}
	return out
}

func c04ErrAtoms(err error) []interface{} {
	if err == nil {
		return nil
	}
	var out []interface{}
	for _, piece := range strings.Split(err.Error(), "; ") {
		switch {
		case piece == gorm.ErrInvalidTransaction.Error():
			out = append(out, "invalidTx")
		case piece == sql.ErrTxDone.Error():
			out = append(out, "txDone")
		case strings.Contains(piece, "no such savepoint"):
			out = append(out, "noSavepoint")
		case strings.Contains(piece, "UNIQUE constraint failed"):
			out = append(out, "conflict")
		case piece == gorm.ErrRecordNotFound.Error():
			out = append(out, "notFound")
		default:
			out = append(out, piece) // inj<k> / user<tag> / anything unexpected verbatim
		}
	}
	return out
}

// c04Run executes the top-level body on the root handle of world w (table reset to `initial`) with fault mask.
func c04Run(w *c04World, initial []int64, body []*c04Node, mask []int, allowRb bool, pk, ek int) *c04Obs {
	w.reset(initial)
	x := &c04Exec{w: w, mask: map[int]bool{}, allowRb: allowRb, users: map[int64]*c04UserErr{}, payloads: map[int64]*c04Payload{},
		pk: pk, ek: ek, payloadVals: map[int64]interface{}{}, userVals: map[int64]error{}, payloadKinds: map[string]int{},
		userKinds: map[string]int{}, endKinds: map[string]int{}, quirkB: map[int]bool{}, failKinds: map[string]int{}}
	x.ref.committed = map[int64]bool{}
	for _, id := range initial {
		x.ref.committed[id] = true
	}
	for _, k := range mask {
		x.mask[k] = true
	}
	w.rec.mu.Lock()
	w.rec.Fault = x.fault
	w.rec.mu.Unlock()
	o := &c04Obs{exec: x}
	func() {
		done := false
		defer func() {
			if !done {
				o.retPan = recover() // may be nil-valued only before Go 1.21 (panic(nil))
				o.panicked = true
			}
		}()
		o.retErr = x.body(w.db, false, "r", body)
		done = true
	}()
	w.rec.mu.Lock()
	w.rec.Fault = nil
	w.rec.mu.Unlock()
	switch {
	case o.panicked:
		// identity of the payload = the block whose function raised it (registered where it was first recovered)
		if tag, ok := x.payloadTag(o.retPan); ok {
			o.Res = []interface{}{"panic", tag}
		} else {
			o.Res = []interface{}{"panic", fmt.Sprintf("unknown payload %T %v", o.retPan, o.retPan)}
		}
	case o.retErr != nil:
		if tag, ok := x.userTag(o.retErr); ok {
			o.Res = []interface{}{"err", fmt.Sprintf("user%d", tag)}
		} else {
			o.Res = append([]interface{}{"err"}, x.errAtoms(o.retErr)...)
		}
	default:
		o.Res = []interface{}{"ok"}
	}
	o.Open = w.rec.OpenTx
	o.InUse = w.sqlDB.Stats().InUse
	o.Store = w.dump()
	o.Trace = x.trace
	if o.Trace == nil {
		o.Trace = []string{}
	}
	o.TxOf = x.txof
	if o.TxOf == nil {
		o.TxOf = []int{}
	}
	o.Reads = x.reads
	if o.Reads == nil {
		o.Reads = [][]int64{}
	}
	o.Stale = x.stale
	// end of the program: durability and "the connection goes back to the pool in every case"
	if want := sortedInts(x.ref.committed); canon(want) != canon(o.Store) {
		x.verdict("final table %v differs from the property's reference %v", o.Store, want)
	}
	if o.Open != 0 || o.InUse != 0 {
		x.leaked = true
		x.verdict("leak: %d driver transaction(s) open, %d connection(s) in use after the program", o.Open, o.InUse)
	}
	return o
}

func c04Has(xs []int64, v int64) bool {
	for _, x := range xs {
		if x == v {
			return true
		}
	}
	return false
}

// ---------------------------------------------------------------- derived handles

type c04CtxKey struct{}

// single-use derivations return a clone = 0 handle (gorm: "do not reuse"): exactly one operation is issued on them
var c04SingleUse = map[string]bool{
	"chain:Finisher": true,
	"chain:Model": true, "chain:Table": true, "chain:Set": true, "initialized:Session": true, "chain:Select": true, "where:Ne": true,
}

// all derivation kinds by class (the class is what Model/Tx.lean `Derive` distinguishes)
var c04DeriveKinds = []string{
	"keep:Session", "keep:SkipHooks", "keep:Context", "keep:Logger", "keep:NowFunc", "keep:QueryFields", "keep:CreateBatchSize",
	"keep:AllowGlobalUpdate", "keep:FullSaveAssociations", "keep:PropagateUnscoped", "keep:DryRunFalse", "initialized:Session",
	"keep:WithContext", "debug:Debug", "keep:All", "chain:Model", "chain:Table", "chain:Set", "chain:Select",
	"prep:Session", "prep:Context", "prep:SkipHooks", "prep:All",
	"newdb:Session", "newdb:Context",
	"skiptx:Session", "disnested:Session",
	"where:Ne",
}

func c04Derive(h *gorm.DB, kind string, arg int64) *gorm.DB {
	ctx := context.WithValue(context.Background(), c04CtxKey{}, kind)
	switch kind {
	case "keep:Session":
		return h.Session(&gorm.Session{})
	case "keep:SkipHooks":
		return h.Session(&gorm.Session{SkipHooks: true})
	case "keep:Context":
		return h.Session(&gorm.Session{Context: ctx})
	case "keep:Logger":
		return h.Session(&gorm.Session{Logger: logger.Discard})
	case "keep:NowFunc":
		return h.Session(&gorm.Session{NowFunc: fixedNowFunc})
	case "keep:QueryFields":
		return h.Session(&gorm.Session{QueryFields: true})
	case "keep:CreateBatchSize":
		return h.Session(&gorm.Session{CreateBatchSize: 7})
	case "keep:AllowGlobalUpdate":
		return h.Session(&gorm.Session{AllowGlobalUpdate: true})
	case "keep:FullSaveAssociations":
		return h.Session(&gorm.Session{FullSaveAssociations: true})
	case "keep:PropagateUnscoped":
		return h.Session(&gorm.Session{PropagateUnscoped: true})
	case "keep:DryRunFalse":
		return h.Session(&gorm.Session{DryRun: false})
	case "initialized:Session":
		return h.Session(&gorm.Session{Initialized: true})
	case "keep:WithContext":
		return h.WithContext(ctx)
	case "debug:Debug":
		return h.Debug()
	case "keep:All":
		return h.Session(&gorm.Session{SkipHooks: true, Context: ctx, Logger: logger.Discard, NowFunc: fixedNowFunc, QueryFields: true,
			CreateBatchSize: 7, AllowGlobalUpdate: true, FullSaveAssociations: true, PropagateUnscoped: true})
	case "chain:Model":
		return h.Model(&TxItem{})
	case "chain:Table":
		return h.Table("tx_items")
	case "chain:Set":
		return h.Set("c04:key", arg)
	case "chain:Select":
		return h.Select("*")
	case "prep:Session":
		return h.Session(&gorm.Session{PrepareStmt: true})
	case "prep:Context":
		return h.Session(&gorm.Session{PrepareStmt: true, Context: ctx})
	case "prep:SkipHooks":
		return h.Session(&gorm.Session{PrepareStmt: true, SkipHooks: true})
	case "prep:All":
		return h.Session(&gorm.Session{PrepareStmt: true, SkipHooks: true, Context: ctx, Logger: logger.Discard, QueryFields: true, AllowGlobalUpdate: true})
	case "newdb:Session":
		return h.Session(&gorm.Session{NewDB: true})
	case "newdb:Context":
		return h.Session(&gorm.Session{NewDB: true, Context: ctx})
	case "skiptx:Session":
		return h.Session(&gorm.Session{SkipDefaultTransaction: true})
	case "disnested:Session":
		return h.Session(&gorm.Session{DisableNestedTransaction: true})
	case "where:Ne":
		return h.Where("id <> ?", arg)
	}
	panic("bad derive kind " + kind)
}

// runEnd: the transaction is ended underneath the running function (see the header). The reference is advanced from what
// was observed: a successful Rollback / a finished background rollback discards the working store, a successful Commit keeps it.
func (x *c04Exec) runEnd(h *gorm.DB, inTx bool, path string, n *c04Node) error {
	x.use(h)
	how := n.ID
	if how == 1 && len(x.cancels) == 0 {
		how = 0
	}
	x.endKinds[[]string{"Rollback() inside the function", "context cancelled, background rollback finished", "Commit() inside the function"}[how]]++
	was := x.ended
	switch how {
	case 1:
		x.cancels[len(x.cancels)-1]()
		deadline := time.Now().Add(3 * time.Second)
		for x.w.sqlDB.Stats().InUse != 0 && time.Now().Before(deadline) {
			time.Sleep(20 * time.Microsecond)
		}
		if was == "" {
			x.ref.end(false)
			x.ended = "rollback"
		}
		return h.Error // (what `h.Rollback().Error` reports besides: the error the handle already carried)
	case 2:
		p := len(x.trace)
		err := h.Commit().Error
		issued, ok := x.commitSince(p)
		if was == "" {
			x.ref.end(issued && ok && err == nil)
			x.ended = "commit"
			if !(issued && ok && err == nil) {
				x.ended = "rollback"
			}
		}
		return err
	}
	err := h.Rollback().Error
	if was == "" {
		x.ref.end(false)
		x.ended = "rollback"
		if err != nil && !x.poisoned {
			x.verdict("%s: Rollback() inside the function returned %q", path, err.Error())
		}
	}
	return err
}

// c04FailKinds: the ways user code comes to hold a handle that already carries an error (class = Model/Tx.lean `FailSrc`)
var c04FailKinds = []string{"adderr:Session", "adderr:WithContext", "firstmiss:First"}

// runFh: user code goes on working through a handle that ALREADY CARRIES AN ERROR — its own AddError on a Session-derived
// handle, or the handle a failed finisher returned (`r := h.First(&item, -1); r.Transaction(…)`). gorm copies the error into
// everything derived from it (Session, getInstance, Begin), so every operation is refused: that is the caller's doing. The
// PROPERTY still holds for such programs: nothing becomes durable, the error comes back, and no connection is kept.
func (x *c04Exec) runFh(h *gorm.DB, inTx bool, path string, n *c04Node) error {
	x.use(h)
	savedP, savedReuse := x.poisoned, x.reuse
	defer func() { x.poisoned, x.reuse = savedP, savedReuse }()
	x.failKinds[n.Kind+map[bool]string{true: "/inside-tx", false: "/top-level"}[inTx]]++
	var h2 *gorm.DB
	switch n.Kind {
	case "adderr:Session":
		h2 = h.Session(&gorm.Session{})
		_ = h2.AddError(x.userErrVal(n.ID))
	case "adderr:WithContext":
		h2 = h.WithContext(context.WithValue(context.Background(), c04CtxKey{}, n.Kind))
		_ = h2.AddError(x.userErrVal(n.ID))
	case "firstmiss:First":
		var it TxItem
		h2 = h.First(&it, -1) // no such row: ErrRecordNotFound (or the injected fault of the query, or the error h carried)
		x.reuse = true
		if h2.Error == nil {
			panic("c04: First(-1) found a row")
		}
	default:
		panic("bad fh kind " + n.Kind)
	}
	x.poisoned = true
	x.opInTx = inTx
	return x.body(h2, inTx, path, n.Body)
}

// runDv: user code derives a handle and keeps working through it; for the PROPERTY the derived handle is the same
// transaction (or the same pool) as the handle it came from
func (x *c04Exec) runDv(h *gorm.DB, inTx bool, path string, n *c04Node) error {
	x.use(h)
	saved, savedDis := x.conds, x.disL
	defer func() { x.conds, x.disL = saved, savedDis }()
	switch {
	case strings.HasPrefix(n.Kind, "disnested:"):
		x.disL = true
	case strings.HasPrefix(n.Kind, "where:"):
		x.conds = append(append([]int64{}, x.conds...), n.ID)
	}
	savedReuse := x.reuse
	defer func() { x.reuse = savedReuse }()
	x.reuse = c04SingleUse[n.Kind]
	switch n.Kind {
	case "chain:Finisher":
		// the *gorm.DB RETURNED by a finisher is a chained handle as well: `r := h.Create(&a); r.Create(&b)`
		if len(n.Body) == 0 || n.Body[0].K != "w" {
			panic("chain:Finisher needs a leading create")
		}
		x.reuse = false
		if err := x.guarded(h, inTx, path+".0", n.Body[0]); err != nil && n.Body[0].Must {
			return err
		}
		x.reuse = true
		x.opInTx = inTx
		return x.bodyFrom(x.lastRes, inTx, path, n.Body, 1)
	case "keep:WithCancel":
		ctx, cancel := context.WithCancel(context.WithValue(context.Background(), c04CtxKey{}, n.Kind))
		x.cancels = append(x.cancels, cancel)
		defer func() { x.cancels = x.cancels[:len(x.cancels)-1]; cancel() }()
		return x.body(h.WithContext(ctx), inTx, path, n.Body)
	}
	h2 := c04Derive(h, n.Kind, n.ID)
	return x.body(h2, inTx, path, n.Body)
}

func sortedInts(m map[int64]bool) []int64 {
	out := []int64{}
	for k, v := range m {
		if v {
			out = append(out, k)
		}
	}
	sort.Slice(out, func(i, j int) bool { return out[i] < out[j] })
	return out
}
