package main

// C16 (round 2) — Save under every chain modifier the API allows.
//
// "Save stores the full value whether or not its key already exists": the chain in front of Save may carry
//   Select(cols…) / Select("*") / Omit(cols…) / Omit(clause.Associations) — spelled as database names, Go field names
//   or `table.column` —, Session(&Session{<one flag>}), Table(name), Model(&v) (the value itself), and the
//   Session(&Session{}) / WithContext derivations the e2e suite inserts at every position.
// What the modifiers legitimately narrow (this is the oracle, c16Ref.saveMods):
//   * Omit(cols):   every column EXCEPT the named ones is stored (zero values included), whether the key is new (zero),
//                   live, soft-deleted or missing; the named columns keep what the table has (or get the column default
//                   in a new row). An Omit that names no column (clause.Associations) narrows nothing.
//   * Select(cols): only the named columns are stored, on the row that has the key; Select("*") names them all.
//                   With a Select on the chain Save is an UPDATE of those columns: when no live row has the key nothing
//                   is created (gorm's documented `selectedUpdate`); a zero key is a Create restricted to the columns.
//   * Session flags, Table(<the model's table>), Model(&v): nothing.
// Tracked timestamps are masked as everywhere in C16.

import (
	"math/rand"

	"gorm.io/gorm"
)

// probe (noted in the evidence, not judged): db.Model(&T{}).Save(&v) with a value other than v takes the Dest != Model
// path of ConvertToAssignments: the key goes into SET, no WHERE is built, gorm answers ErrMissingWhereClause and stores
// nothing. The generators only use Model(&v) with the saved value itself.
func c16SaveModelProbe(r *Result, rng *rand.Rand, tier string) {
	e := c16Open()
	e.setTable(false, [][]int{{1, 1, 1, 0, 7, 8, 2, 2, 0}})
	res := e.db.Model(&C16U{}).Save(c16Mk(false, []int{1, 2, 0, 0, 7, 8, 0, 0, 0}))
	r.Note("probe Model(&C16U{}).Save(&v): error class %q, table %v", c16ErrClass(res.Error), e.dump(false))
}

func init() { register("C16", c16SaveModelProbe) }

var c16GoNames = []string{"ID", "Name", "Age", "Email", "Code", "Rank", "CreatedAt", "UpdatedAt", "Note", "DeletedAt"}

func c16Spell(c, sp int, soft bool) string {
	switch sp {
	case 1:
		return c16GoNames[c]
	case 2:
		return c16Table(soft) + "." + c16Cols[c]
	}
	return c16Cols[c]
}

func c16SessionOf(flag string) *gorm.Session {
	switch flag {
	case "skiphooks":
		return &gorm.Session{SkipHooks: true}
	case "fullsave":
		return &gorm.Session{FullSaveAssociations: true}
	case "skiptx":
		return &gorm.Session{SkipDefaultTransaction: true}
	case "prepare":
		return &gorm.Session{PrepareStmt: true}
	case "batch":
		return &gorm.Session{CreateBatchSize: 2}
	case "queryfields":
		return &gorm.Session{QueryFields: true}
	case "global":
		return &gorm.Session{AllowGlobalUpdate: true}
	}
	return &gorm.Session{}
}

var c16SessFlags = []string{"skiphooks", "fullsave", "skiptx", "prepare", "batch", "queryfields", "global"}

// c16Mods: what the chain's Select / Omit calls amount to (the last call of each kind counts)
type c16Mods struct {
	star      bool
	sel, om   []int
	omitOther bool
	any       bool // some Select / Omit call is on the chain
	skipHooks bool
}

func (p *C16P) mods() (m c16Mods) {
	m.sel, m.om = []int{}, []int{}
	for _, s := range p.Steps {
		switch s.K {
		case "select":
			m.sel, m.star, m.any = append([]int{}, s.Cols...), false, true
		case "selstar":
			m.sel, m.star, m.any = []int{}, true, true
		case "omit":
			m.om, m.omitOther, m.any = append([]int{}, s.Cols...), false, true
		case "omitassoc":
			m.om, m.omitOther, m.any = []int{}, true, true
		case "sess":
			if s.Flag == "skiphooks" {
				m.skipHooks = true
			}
		}
	}
	return
}

// saveMods: the reference for Save under Select / Omit (see the header)
func (t *c16Ref) saveMods(v []int, m c16Mods) ([]int, string) {
	selected := m.star || len(m.sel) > 0
	src := &c16Ins{sel: m.sel, omit: m.om}
	if m.star {
		src = &c16Ins{omit: m.om}
	}
	if v[0] == 0 {
		return t.createIns(v, src, nil)
	}
	if old, ok := t.rows[v[0]]; ok && t.live(old) {
		for c := 1; c < len(old); c++ {
			if c16Has(m.om, c) || (selected && !m.star && !c16Has(m.sel, c)) {
				continue
			}
			old[c] = v[c]
		}
		return append([]int(nil), v...), "ok"
	}
	if selected {
		return append([]int(nil), v...), "ok" // an UPDATE of the named columns: no row has the key, nothing is created
	}
	return t.createIns(v, &c16Ins{omit: m.om}, &C16R{Kind: "all"})
}

// c16GenSaveMods puts 1..3 modifiers in front of a Save / Save;Save / Save(&slice)
func c16GenSaveMods(rng *rand.Rand, p *C16P, rich bool) {
	nonKey := []int{c16Name, c16Age, c16Email, c16Code, c16Rank, c16Updated, c16Note}
	if p.Soft {
		nonKey = append(nonKey, c16Deleted)
	}
	sp := 0
	if rng.Intn(3) == 0 {
		sp = 1 + rng.Intn(2)
	}
	zeroKey := len(p.Fin.Row) > 0 && p.Fin.Row[0] == 0
	for _, r := range p.Fin.Many {
		zeroKey = zeroKey || r[0] == 0
	}
	k := rng.Intn(8)
	if k == 4 && zeroKey {
		// an INSERT without any column is `DEFAULT VALUES`, which SQLite does not combine with ON CONFLICT: not this property
		k = 3
	}
	switch k {
	case 0, 1:
		p.Steps = append(p.Steps, C16St{K: "omitassoc"})
	case 2, 3:
		p.Steps = append(p.Steps, C16St{K: "omit", Cols: c16Subset(rng, append(nonKey, c16Created), 1, 3), Sp: sp})
	case 4:
		// everything but the key
		p.Steps = append(p.Steps, C16St{K: "omit", Cols: append(append([]int{}, nonKey...), c16Created), Sp: sp})
	case 5:
		cols := c16Subset(rng, nonKey, 1, 4)
		if rng.Intn(3) == 0 {
			cols = append([]int{c16ID}, cols...)
		}
		p.Steps = append(p.Steps, C16St{K: "select", Cols: cols, Sp: sp})
	case 6:
		p.Steps = append(p.Steps, C16St{K: "selstar"})
		if rng.Intn(2) == 0 {
			p.Steps = append(p.Steps, C16St{K: "omit", Cols: c16Subset(rng, nonKey, 1, 2), Sp: sp})
		}
	default:
		// no Select / Omit: only the neutral modifiers below
	}
	if rng.Intn(3) == 0 {
		f := c16SessFlags[rng.Intn(len(c16SessFlags))]
		if rich && f == "skiphooks" {
			f = "skiptx" // the model has hooks on (updated_at would differ); SkipHooks is judged by the e2e reference
		}
		st := C16St{K: "sess", Flag: f}
		if rng.Intn(2) == 0 {
			p.Steps = append([]C16St{st}, p.Steps...)
		} else {
			p.Steps = append(p.Steps, st)
		}
	}
	if rng.Intn(5) == 0 {
		p.Steps = append(p.Steps, C16St{K: "table"})
	}
	if rng.Intn(5) == 0 && p.Fin.K != "sslice" {
		p.Fin.Self = true
	}
}

func c16ModsJ(m c16Mods) []interface{} {
	return []interface{}{m.star, m.sel, m.om, m.omitOther}
}

func c16SaveBranch(p *C16P) string {
	m := p.mods()
	switch {
	case m.star && len(m.om) > 0:
		return "+select*+omit"
	case m.star:
		return "+select*"
	case len(m.sel) > 0:
		return "+select"
	case len(m.om) >= 8:
		return "+omit-everything"
	case len(m.om) > 0:
		return "+omit"
	case m.omitOther:
		return "+omit-associations"
	}
	return ""
}
