package main

// C12, KEY VALUE ALPHABETS: relations whose targets carry STRING (single and composite) primary keys chosen by the application.
// The identity of a record - in the IN / NOT IN lists of Delete / Replace (schema.GetIdentityFieldValuesMap(FromValues)), in the
// de-duplication of the upserted targets (callbacks/associations.go identityMap) and in Delete's in-memory clean-up - must be
// EXACT key equality: keys that differ only in letter case, by a leading / trailing blank, "1" vs "01", "ß" vs "ss" are different
// records (SQLite compares TEXT bytewise).  Every call hands its records over in a generated PARTITION into variadic arguments
// (one slice, one pointer per record, mixed, slices of pointers) - the de-duplication of gorm works per argument.
//
// Suites:  key-sequences (e2e): sequences of Append / Replace / Delete / Clear judged by a reference over exact key tuples;
//          key-identity (correspondence): real schema.GetIdentityFieldValuesMapFromValues + utils.ToStringKey on generated
//          argument lists vs Lean Gorm.Assoc.identityFromValues (Model/AssocKeys.lean).

import (
	"context"
	"encoding/json"
	"fmt"
	"math/rand"
	"reflect"
	"sort"
	"strings"
	"sync"
	"sync/atomic"

	"gorm.io/gorm"
	"gorm.io/gorm/schema"
	"gorm.io/gorm/utils"
)

type C12KLine struct {
	Code       string `gorm:"primaryKey"`
	Name       string
	C12KUserID *uint
}
type C12KWord struct {
	Code string `gorm:"primaryKey"`
	Name string
}
type C12KMark struct {
	A    string `gorm:"primaryKey"`
	B    string `gorm:"primaryKey"`
	Name string
}
type C12KSpot struct {
	Code string `gorm:"primaryKey"`
	Name string
}
type C12KUser struct {
	ID       uint `gorm:"primaryKey"`
	Name     string
	Lines    []C12KLine
	Words    []*C12KWord `gorm:"many2many:c12_k_user_words"`
	Marks    []C12KMark  `gorm:"many2many:c12_k_user_marks"`
	SpotCode *string
	Spot     *C12KSpot `gorm:"foreignKey:SpotCode;references:Code"`
}

type c12kKind struct {
	Name, Field, Class, Table string
	Card1                     bool
	Keys                      []string // key columns of the target
	LinkSQL                   string   // owner id, key parts
}

var c12kKinds = []c12kKind{
	{Name: "k_has_many", Field: "Lines", Class: "fk", Table: "c12_k_lines", Keys: []string{"code"}, LinkSQL: "SELECT c12_k_user_id, code FROM c12_k_lines WHERE c12_k_user_id IS NOT NULL"},
	{Name: "k_many2many", Field: "Words", Class: "m2m", Table: "c12_k_words", Keys: []string{"code"}, LinkSQL: "SELECT c12_k_user_id, c12_k_word_code FROM c12_k_user_words"},
	{Name: "k_many2many_composite", Field: "Marks", Class: "m2m", Table: "c12_k_marks", Keys: []string{"a", "b"}, LinkSQL: "SELECT c12_k_user_id, c12_k_mark_a, c12_k_mark_b FROM c12_k_user_marks"},
	{Name: "k_belongs_to", Field: "Spot", Class: "bt", Table: "c12_k_spots", Card1: true, Keys: []string{"code"}, LinkSQL: "SELECT id, spot_code FROM c12_k_users WHERE spot_code IS NOT NULL"},
}

func c12kKindByName(n string) *c12kKind {
	for i := range c12kKinds {
		if c12kKinds[i].Name == n {
			return &c12kKinds[i]
		}
	}
	return nil
}

type c12kKey []string

func (k c12kKey) String() string { return strings.Join(k, "\x1f") }

// one variadic argument: Form 0 = *T (one key), 1 = []T, 2 = []*T, 3 = *[]T
type c12kChunk struct {
	Keys []c12kKey `json:"keys"`
	Form int       `json:"form"`
}

type c12kOp struct {
	Op   string        `json:"op"`
	Args [][]c12kChunk `json:"args"` // per operated owner (Delete / single owner: Args[0]) the variadic arguments
}

type c12kSeq struct {
	Kind   string    `json:"kind"`
	Owners int       `json:"owners"`
	Pre    []c12kKey `json:"pre"` // targets existing before the sequence
	By     []c12kKey `json:"by"`  // ... linked to the bystander (owner 3)
	Own    []c12kKey `json:"own"` // ... linked to owner 1 (which is then loaded with Preload)
	Ops    []c12kOp  `json:"ops"`
}

type c12kObs struct {
	Err     string     `json:"err"`
	Links   []string   `json:"links"` // "owner->key"
	Targets []string   `json:"targets"`
	Count   int64      `json:"count"`
	Find    []string   `json:"find"`
	Mem     [][]string `json:"mem"`
	Bad     string     `json:"bad,omitempty"`
}

var (
	c12kDDLOnce sync.Once
	c12kDDL     []string
	c12kSkipped atomic.Int64
)

func c12kShow(k c12kKey) string { return "<" + strings.Join(k, "|") + ">" }

func c12kSetup(db *gorm.DB, k *c12kKind, s c12kSeq) {
	ex := func(q string, a ...interface{}) {
		if err := db.Exec(q, a...).Error; err != nil {
			panic(fmt.Sprint(q, ": ", err))
		}
	}
	c12kDDLOnce.Do(func() {
		d, rec, sq := OpenRec(&gorm.Config{NowFunc: fixedNowFunc})
		defer sq.Close()
		if err := d.AutoMigrate(&C12KLine{}, &C12KWord{}, &C12KMark{}, &C12KSpot{}, &C12KUser{}); err != nil {
			panic(err)
		}
		for _, e := range rec.Snapshot() {
			if (e.Kind == "exec" || e.Kind == "stmt_exec") && strings.HasPrefix(strings.ToUpper(strings.TrimSpace(e.SQL)), "CREATE") {
				c12kDDL = append(c12kDDL, e.SQL)
			}
		}
	})
	for _, q := range c12kDDL {
		ex(q)
	}
	for i := 1; i <= 3; i++ {
		ex("INSERT INTO c12_k_users (id, name) VALUES (?, ?)", i, fmt.Sprint("u", i))
	}
	owner := map[string]int{}
	for _, b := range s.By {
		owner[b.String()] = 3
	}
	for _, b := range s.Own {
		owner[b.String()] = 1
	}
	for _, p := range s.Pre {
		cols, args := append([]string{}, k.Keys...), []interface{}{}
		for _, x := range p {
			args = append(args, x)
		}
		cols, args = append(cols, "name"), append(args, c12kShow(p))
		o := owner[p.String()]
		if k.Class == "fk" && o != 0 {
			cols, args = append(cols, "c12_k_user_id"), append(args, o)
		}
		ex("INSERT INTO "+k.Table+" ("+strings.Join(cols, ", ")+") VALUES (?"+strings.Repeat(", ?", len(cols)-1)+")", args...)
		if o == 0 {
			continue
		}
		switch k.Field {
		case "Words":
			ex("INSERT INTO c12_k_user_words (c12_k_user_id, c12_k_word_code) VALUES (?, ?)", o, p[0])
		case "Marks":
			ex("INSERT INTO c12_k_user_marks (c12_k_user_id, c12_k_mark_a, c12_k_mark_b) VALUES (?, ?, ?)", o, p[0], p[1])
		case "Spot":
			ex("UPDATE c12_k_users SET spot_code = ? WHERE id = ?", p[0], o)
		}
	}
}

func c12kTargetType(k *c12kKind) reflect.Type {
	f, _ := reflect.TypeOf(C12KUser{}).FieldByName(k.Field)
	t := f.Type
	for t.Kind() == reflect.Ptr || t.Kind() == reflect.Slice {
		t = t.Elem()
	}
	return t
}

var c12kGoFields = map[string]string{"code": "Code", "a": "A", "b": "B"}

func c12kRecKey(k *c12kKind, v reflect.Value) c12kKey {
	for v.Kind() == reflect.Ptr {
		if v.IsNil() {
			return nil
		}
		v = v.Elem()
	}
	var out c12kKey
	zero := true
	for _, c := range k.Keys {
		x := v.FieldByName(c12kGoFields[c]).String()
		zero = zero && x == ""
		out = append(out, x)
	}
	if zero {
		return nil
	}
	return out
}

func c12kBuild(k *c12kKind, chunks []c12kChunk) []interface{} {
	tt := c12kTargetType(k)
	mk := func(key c12kKey) reflect.Value {
		p := reflect.New(tt)
		for i, c := range k.Keys {
			p.Elem().FieldByName(c12kGoFields[c]).SetString(key[i])
		}
		p.Elem().FieldByName("Name").SetString(c12kShow(key))
		return p
	}
	var args []interface{}
	for _, ch := range chunks {
		switch {
		case ch.Form == 0 && len(ch.Keys) == 1:
			args = append(args, mk(ch.Keys[0]).Interface())
		case ch.Form == 2:
			sl := reflect.MakeSlice(reflect.SliceOf(reflect.PointerTo(tt)), 0, len(ch.Keys))
			for _, key := range ch.Keys {
				sl = reflect.Append(sl, mk(key))
			}
			args = append(args, sl.Interface())
		default:
			sl := reflect.MakeSlice(reflect.SliceOf(tt), 0, len(ch.Keys))
			for _, key := range ch.Keys {
				sl = reflect.Append(sl, mk(key).Elem())
			}
			if ch.Form == 3 {
				h := reflect.New(sl.Type())
				h.Elem().Set(sl)
				args = append(args, h.Interface())
			} else {
				args = append(args, sl.Interface())
			}
		}
	}
	return args
}

func c12kExec(s c12kSeq) []c12kObs {
	k := c12kKindByName(s.Kind)
	db, _, sqlDB := OpenRec(&gorm.Config{NowFunc: fixedNowFunc})
	defer sqlDB.Close()
	c12kSetup(db, k, s)
	vals := []C12KUser{{ID: 1, Name: "u1"}, {ID: 2, Name: "u2"}}
	if len(s.Own) > 0 {
		vals = nil
		if err := db.Preload(k.Field).Order("id").Find(&vals, []int{1, 2}).Error; err != nil || len(vals) != 2 {
			// loading the operated records is not an operation of the sequence (preloading is property C11's): the sequence is not judged
			c12kSkipped.Add(1)
			return nil
		}
	}
	var model interface{} = &vals[0]
	owners := []*C12KUser{&vals[0]}
	if s.Owners == 2 {
		model, owners = &vals, []*C12KUser{&vals[0], &vals[1]}
	}
	var out []c12kObs
	for _, op := range s.Ops {
		o := c12kObs{}
		var args []interface{}
		for _, chunks := range op.Args {
			args = append(args, c12kBuild(k, chunks)...)
		}
		func() {
			defer func() {
				if p := recover(); p != nil {
					o.Err = fmt.Sprint("panic: ", p)
				}
			}()
			as := db.Model(model).Association(k.Field)
			var err error
			switch op.Op {
			case "append":
				err = as.Append(args...)
			case "replace":
				err = as.Replace(args...)
			case "delete":
				err = as.Delete(args...)
			case "clear":
				err = as.Clear()
			}
			if err != nil {
				o.Err = err.Error()
			}
		}()
		raw := db.Session(&gorm.Session{NewDB: true})
		strs := func(q string, n int) []string {
			rows, err := raw.Raw(q).Rows()
			if err != nil {
				panic(err)
			}
			defer rows.Close()
			res := []string{}
			for rows.Next() {
				parts := make([]interface{}, n)
				for i := range parts {
					parts[i] = new(string)
				}
				if err := rows.Scan(parts...); err != nil {
					panic(err)
				}
				var ps []string
				for _, p := range parts {
					ps = append(ps, *p.(*string))
				}
				res = append(res, strings.Join(ps, "\x1f"))
			}
			sort.Strings(res)
			return res
		}
		for _, l := range strs(k.LinkSQL, 1+len(k.Keys)) {
			i := strings.Index(l, "\x1f")
			o.Links = append(o.Links, l[:i]+"->"+l[i+1:])
		}
		o.Targets = strs("SELECT "+strings.Join(k.Keys, ", ")+" FROM "+k.Table, len(k.Keys))
		func() {
			defer func() {
				if p := recover(); p != nil {
					o.Bad = fmt.Sprint("panic: ", p)
				}
			}()
			as := db.Model(model).Association(k.Field)
			o.Count = as.Count()
			if as.Error != nil {
				o.Bad = "Count: " + as.Error.Error()
			}
			res := reflect.New(reflect.SliceOf(c12kTargetType(k)))
			if err := db.Model(model).Association(k.Field).Find(res.Interface()); err != nil {
				o.Bad += " Find: " + err.Error()
			}
			o.Find = []string{}
			for i := 0; i < res.Elem().Len(); i++ {
				o.Find = append(o.Find, c12kRecKey(k, res.Elem().Index(i)).String())
			}
			sort.Strings(o.Find)
		}()
		for _, u := range owners {
			f := reflect.ValueOf(u).Elem().FieldByName(k.Field)
			seen := map[string]bool{}
			mem := []string{}
			add := func(v reflect.Value) {
				if key := c12kRecKey(k, v); key != nil && !seen[key.String()] {
					seen[key.String()] = true
					mem = append(mem, key.String())
				}
			}
			if f.Kind() == reflect.Slice {
				for i := 0; i < f.Len(); i++ {
					add(f.Index(i))
				}
			} else {
				add(f)
			}
			sort.Strings(mem)
			o.Mem = append(o.Mem, mem)
		}
		out = append(out, o)
	}
	return out
}

// ---- reference over exact key tuples ------------------------------------------------------------------------------------------

func c12kAllKeys(s c12kSeq) []c12kKey {
	out := append([]c12kKey{}, s.Pre...)
	for _, op := range s.Ops {
		for _, chunks := range op.Args {
			for _, ch := range chunks {
				out = append(out, ch.Keys...)
			}
		}
	}
	return out
}

// the pattern of listed finding F12f: two DISTINCT key tuples of the sequence with the same '_'-join
func c12kCollision(s c12kSeq) bool {
	seen := map[string]string{}
	for _, key := range c12kAllKeys(s) {
		j := strings.Join(key, "_")
		if o, ok := seen[j]; ok && o != key.String() {
			return true
		}
		seen[j] = key.String()
	}
	return false
}

func c12kJudge(s c12kSeq, obs []c12kObs) (step int, what, got, want string) {
	k := c12kKindByName(s.Kind)
	links := map[[2]string]bool{}
	exists := map[string]bool{}
	for _, p := range s.Pre {
		exists[p.String()] = true
	}
	for _, p := range s.By {
		links[[2]string{"3", p.String()}] = true
	}
	for _, p := range s.Own {
		links[[2]string{"1", p.String()}] = true
	}
	ops := []string{"1"}
	if s.Owners == 2 {
		ops = []string{"1", "2"}
	}
	add := func(o, t string) {
		for l := range links {
			if (k.Class == "fk" && l[1] == t && l[0] != o) || (k.Card1 && l[0] == o && l[1] != t) {
				delete(links, l)
			}
		}
		links[[2]string{o, t}] = true
		exists[t] = true
	}
	flat := func(chunks []c12kChunk) []string {
		var out []string
		for _, ch := range chunks {
			for _, key := range ch.Keys {
				out = append(out, key.String())
			}
		}
		return out
	}
	for step, op := range s.Ops {
		if step >= len(obs) {
			break
		}
		o := obs[step]
		if o.Err != "" {
			return step, "the operation returned an error", o.Err, "no error"
		}
		switch op.Op {
		case "append", "replace":
			for i, ow := range ops {
				var named []string
				if s.Owners == 2 {
					if i < len(op.Args) {
						named = flat(op.Args[i])
					}
				} else {
					for _, a := range op.Args {
						named = append(named, flat(a)...)
					}
				}
				if op.Op == "replace" || (k.Card1 && len(named) > 0) {
					keep := map[string]bool{}
					for _, t := range named {
						keep[t] = true
					}
					for l := range links {
						if l[0] == ow && !keep[l[1]] {
							delete(links, l)
						}
					}
				}
				for _, t := range named {
					add(ow, t)
				}
			}
		case "delete":
			for _, a := range op.Args {
				for _, t := range flat(a) {
					for _, ow := range ops {
						delete(links, [2]string{ow, t})
					}
				}
			}
		case "clear":
			for l := range links {
				if l[0] == "1" || (s.Owners == 2 && l[0] == "2") {
					delete(links, l)
				}
			}
		}
		var wantL, wantF []string
		wantM := map[string][]string{}
		for l := range links {
			wantL = append(wantL, l[0]+"->"+l[1])
			if l[0] == "1" || (s.Owners == 2 && l[0] == "2") {
				wantF = append(wantF, l[1])
				wantM[l[0]] = append(wantM[l[0]], l[1])
			}
		}
		sort.Strings(wantL)
		sort.Strings(wantF)
		show := func(x []string) string { return strings.ReplaceAll(fmt.Sprintf("%q", x), "\\x1f", "|") }
		if fmt.Sprint(o.Links) != fmt.Sprint(wantL) {
			return step, "links stored in the database differ from the links the sequence defines", show(o.Links), show(wantL)
		}
		have := map[string]bool{}
		for _, t := range o.Targets {
			have[t] = true
		}
		for t := range exists {
			if !have[t] {
				return step, "an associated record did not survive / was not created", "missing " + show([]string{t}), "present"
			}
		}
		if k.Class == "bt" && s.Owners == 2 { // (F12b: Count over a slice of belongs-to owners counts records) not generated
		}
		if o.Bad != "" || int(o.Count) != len(wantF) {
			return step, "Count() differs from the number of links", fmt.Sprint(o.Count, " ", o.Bad), fmt.Sprint(len(wantF))
		}
		fd := map[string]bool{}
		for _, t := range o.Find {
			fd[t] = true
		}
		wf := map[string]bool{}
		for _, t := range wantF {
			wf[t] = true
		}
		if fmt.Sprint(c12SortedKeys(fd)) != fmt.Sprint(c12SortedKeys(wf)) {
			return step, "Find() differs from the linked records", show(c12SortedKeys(fd)), show(c12SortedKeys(wf))
		}
		for i, ow := range ops {
			w := append([]string{}, wantM[ow]...)
			sort.Strings(w)
			if fmt.Sprint(o.Mem[i]) != fmt.Sprint(w) {
				return step, "distinct records of the in-memory field of owner " + ow + " differ from its links", show(o.Mem[i]), show(w)
			}
		}
	}
	return -1, "", "", ""
}

// ---- generator ------------------------------------------------------------------------------------------------------------------

// clusters of key parts that a sloppy identity would merge
var c12kClusters = [][]string{
	{"en", "EN", "En", " en", "en ", "e_n", "en_"},
	{"a", "A", "a ", " a", "_a", "a_"},
	{"1", "01", "1.0", "1 ", "+1"},
	{"ß", "ss", "SS", "ẞ"},
	{"é", "É", "e", "é"},
	{"i", "I", "ı", "İ"},
	{"nil", "NIL", "0", "null"},
	{"zh-CN", "zh-cn", "zh_CN", "ZH-CN"},
}

func c12kGenSeq(rng *rand.Rand, safe bool) c12kSeq {
	k := &c12kKinds[rng.Intn(len(c12kKinds))]
	s := c12kSeq{Kind: k.Name, Owners: 1}
	// the key pool: two clusters (composite: the product of few parts)
	var parts []string
	for _, ci := range rng.Perm(len(c12kClusters))[:2] {
		for _, p := range c12kClusters[ci] {
			if !(safe && strings.Contains(p, "_")) {
				parts = append(parts, p)
			}
		}
	}
	var pool []c12kKey
	if len(k.Keys) == 1 {
		for _, p := range parts {
			pool = append(pool, c12kKey{p})
		}
	} else {
		for i := 0; i < 10; i++ {
			pool = append(pool, c12kKey{parts[rng.Intn(len(parts))], parts[rng.Intn(len(parts))]})
		}
	}
	if k.Class == "m2m" && rng.Intn(3) == 0 {
		s.Owners = 2
	}
	taken := map[string]bool{}
	for _, key := range pool {
		if rng.Intn(3) == 0 && !taken[key.String()] {
			taken[key.String()] = true
			s.Pre = append(s.Pre, key)
			switch x := rng.Intn(4); {
			case x == 0 && !(k.Card1 && len(s.By) > 0):
				s.By = append(s.By, key)
			case x == 1 && !(k.Card1 && len(s.Own) > 0):
				s.Own = append(s.Own, key)
			}
		}
	}
	chunks := func(keys []c12kKey) []c12kChunk {
		// a random partition into variadic arguments
		var out []c12kChunk
		for len(keys) > 0 {
			n := 1 + rng.Intn(len(keys))
			if rng.Intn(3) == 0 {
				n = len(keys)
			}
			ch := c12kChunk{Keys: keys[:n], Form: 1 + rng.Intn(3)}
			if n == 1 && rng.Intn(2) == 0 {
				ch.Form = 0
			}
			out = append(out, ch)
			keys = keys[n:]
		}
		return out
	}
	pick := func(max int) []c12kKey {
		n := 1 + rng.Intn(max)
		var keys []c12kKey
		for i := 0; i < n; i++ {
			keys = append(keys, pool[rng.Intn(len(pool))])
		}
		if n < max && rng.Intn(2) == 0 { // a near-twin of a named key in the same call
			b := keys[rng.Intn(len(keys))]
			for _, cand := range pool {
				if cand.String() != b.String() && strings.EqualFold(strings.TrimSpace(cand.String()), strings.TrimSpace(b.String())) {
					keys = append(keys, cand)
					break
				}
			}
		}
		return keys
	}
	for i, n := 0, 1+rng.Intn(5); i < n; i++ {
		op := c12kOp{}
		switch x := rng.Intn(100); {
		case x < 35:
			op.Op = "append"
		case x < 60 && s.Owners == 1: // (Replace on a slice of many2many owners: listed finding F12d, not generated here)
			op.Op = "replace"
		case x < 88:
			op.Op = "delete"
		default:
			op.Op = "clear"
		}
		switch {
		case op.Op == "clear":
		case op.Op == "delete":
			op.Args = [][]c12kChunk{chunks(pick(4))}
		case k.Card1:
			op.Args = [][]c12kChunk{chunks(pick(1))}
		case s.Owners == 2:
			for o := 0; o < 2; o++ {
				op.Args = append(op.Args, []c12kChunk{{Keys: pick(3), Form: 1 + rng.Intn(3)}}) // exactly one argument per owner
			}
		default:
			op.Args = [][]c12kChunk{chunks(pick(4))}
		}
		s.Ops = append(s.Ops, op)
	}
	return s
}

func c12kCase(r *Result, s c12kSeq, obs []c12kObs) {
	step, what, got, want := c12kJudge(s, obs)
	if step < 0 {
		return
	}
	if c12kCollision(s) && listed("F12f-composite-key-string-collision") {
		r.KnownFinding("F12f-composite-key-string-collision", what+": got "+got+" want "+want)
		return
	}
	r.Violate(Violation{Kind: "e2e", Suite: "key-sequences", Input: s, Observed: map[string]interface{}{"step": step, "got": got, "obs": obs[step]},
		Expected: map[string]interface{}{"want": want, "verdict": what}})
}

// ---- correspondence: GetIdentityFieldValuesMapFromValues / ToStringKey vs Lean identityFromValues --------------------------------

type C12IDRec struct {
	S  string
	T  string
	U  uint
	I  int
	PS *string
	B  []byte
}

var c12IDFieldSets = [][]string{{"S"}, {"S", "T"}, {"U"}, {"S", "U"}, {"I", "S"}, {"PS"}, {"PS", "S"}, {"B"}, {"U", "I"}, {"S", "T", "U"}}

// one key component as the model sees it (KeyVal + the zero flag of field.ValueOf) - written down independently of gorm
func c12IDComp(rec *C12IDRec, f string) []interface{} {
	switch f {
	case "S":
		return []interface{}{map[string]interface{}{"s": rec.S}, rec.S == ""}
	case "T":
		return []interface{}{map[string]interface{}{"s": rec.T}, rec.T == ""}
	case "U":
		return []interface{}{map[string]interface{}{"u": rec.U}, rec.U == 0}
	case "I":
		return []interface{}{map[string]interface{}{"i": rec.I}, rec.I == 0}
	case "B":
		if rec.B == nil {
			return []interface{}{nil, true}
		}
		return []interface{}{map[string]interface{}{"b": string(rec.B)}, false}
	default:
		if rec.PS == nil {
			return []interface{}{nil, true}
		}
		return []interface{}{map[string]interface{}{"s": *rec.PS}, false}
	}
}

func c12IDTag(v interface{}) string {
	switch x := v.(type) {
	case string:
		return "s:" + x
	case *string:
		if x == nil {
			return "nil"
		}
		return "s:" + *x
	case []byte:
		if x == nil {
			return "nil"
		}
		return "b:" + string(x)
	case uint:
		return fmt.Sprint("u:", x)
	case int:
		return fmt.Sprint("i:", x)
	case nil:
		return "nil"
	}
	return fmt.Sprintf("?%T", v)
}

var (
	c12IDSchemaOnce sync.Once
	c12IDSchema     *schema.Schema
)

func c12IDTie(r *Result, rng *rand.Rand, n int) {
	c12IDSchemaOnce.Do(func() {
		var err error
		if c12IDSchema, err = schema.Parse(&C12IDRec{}, &sync.Map{}, schema.NamingStrategy{}); err != nil {
			panic(err)
		}
	})
	var strsPool []string
	for _, c := range c12kClusters {
		strsPool = append(strsPool, c...)
	}
	strsPool = append(strsPool, "", "")
	type tcase struct {
		Fields []string        `json:"fields"`
		Args   [][]interface{} `json:"args"` // per argument: [many, [[addr, [[kv, zero]…]]…]]
		real   string
	}
	var cases []tcase
	var ops [][]interface{}
	for i := 0; i < n; i++ {
		fs := c12IDFieldSets[rng.Intn(len(c12IDFieldSets))]
		var fields []*schema.Field
		for _, f := range fs {
			fields = append(fields, c12IDSchema.FieldsByName[f])
		}
		// a few records over a small value pool, so that equal and near-equal keys meet
		pool := []string{strsPool[rng.Intn(len(strsPool))], strsPool[rng.Intn(len(strsPool))], strsPool[rng.Intn(len(strsPool))]}
		recs := make([]*C12IDRec, 2+rng.Intn(4))
		for j := range recs {
			rec := &C12IDRec{S: pool[rng.Intn(3)], T: pool[rng.Intn(3)], U: uint(rng.Intn(3)), I: rng.Intn(3) - 1}
			if rng.Intn(4) > 0 {
				p := pool[rng.Intn(3)]
				rec.PS = &p
			}
			if rng.Intn(4) > 0 {
				rec.B = []byte(pool[rng.Intn(3)])
			}
			recs[j] = rec
		}
		tc := tcase{Fields: fs}
		var values []interface{}
		addr := 0
		row := func(rec *C12IDRec, a int) []interface{} {
			var comps []interface{}
			for _, f := range fs {
				comps = append(comps, c12IDComp(rec, f))
			}
			return []interface{}{a, comps}
		}
		ptrAddr := map[*C12IDRec]int{}
		for a, nargs := 0, 1+rng.Intn(3); a < nargs; a++ {
			switch rng.Intn(4) {
			case 0: // *T
				rec := recs[rng.Intn(len(recs))]
				addr++
				values = append(values, rec)
				tc.Args = append(tc.Args, []interface{}{false, []interface{}{row(rec, addr)}})
			case 1, 2: // []T (every element has its own address)
				var sl []C12IDRec
				var rows []interface{}
				for j, m := 0, rng.Intn(5); j < m; j++ {
					rec := recs[rng.Intn(len(recs))]
					sl = append(sl, *rec)
					addr++
					rows = append(rows, row(rec, addr))
				}
				if rows == nil {
					rows = []interface{}{}
				}
				if rng.Intn(2) == 0 {
					values = append(values, &sl)
				} else {
					values = append(values, sl)
				}
				tc.Args = append(tc.Args, []interface{}{true, rows})
			default: // []*T (the same pointer may occur twice: skipped as already loaded)
				var sl []*C12IDRec
				var rows []interface{}
				for j, m := 0, rng.Intn(5); j < m; j++ {
					rec := recs[rng.Intn(len(recs))]
					sl = append(sl, rec)
					if _, ok := ptrAddr[rec]; !ok {
						addr++
						ptrAddr[rec] = 1000 + addr
					}
					rows = append(rows, row(rec, ptrAddr[rec]))
				}
				if rows == nil {
					rows = []interface{}{}
				}
				values = append(values, sl)
				tc.Args = append(tc.Args, []interface{}{true, rows})
			}
		}
		func() {
			defer func() {
				if p := recover(); p != nil {
					tc.real = fmt.Sprint("panic: ", p)
				}
			}()
			m, vs := schema.GetIdentityFieldValuesMapFromValues(context.Background(), values, fields)
			var groups, tuples []string
			for key, els := range m {
				groups = append(groups, fmt.Sprintf("%q:%d", key, len(els)))
			}
			sort.Strings(groups)
			for _, t := range vs {
				var ps []string
				for _, x := range t {
					ps = append(ps, c12IDTag(x))
				}
				tuples = append(tuples, strings.Join(ps, ","))
				if _, ok := m[utils.ToStringKey(t...)]; !ok {
					groups = append(groups, "value tuple without group: "+strings.Join(ps, ","))
				}
			}
			tc.real = fmt.Sprintf("groups=%v values=%q", groups, tuples)
		}()
		cases = append(cases, tc)
		ops = append(ops, []interface{}{"assoc.idvalues", tc.Args})
	}
	outs, err := AskLean(ops)
	if err != nil {
		r.Violate(Violation{Kind: "correspondence", Suite: "key-identity", Note: err.Error()})
		return
	}
	for i, tc := range cases {
		var m struct {
			Groups [][]interface{} `json:"groups"`
			Values [][]string      `json:"values"`
		}
		if err := json.Unmarshal(outs[i], &m); err != nil {
			r.Violate(Violation{Kind: "correspondence", Suite: "key-identity", Input: tc, Observed: string(outs[i]), Note: "model rejected the case"})
			continue
		}
		var groups, tuples []string
		for _, g := range m.Groups {
			groups = append(groups, fmt.Sprintf("%q:%v", g[0], g[1]))
		}
		sort.Strings(groups)
		for _, t := range m.Values {
			tuples = append(tuples, strings.Join(t, ","))
		}
		lean := fmt.Sprintf("groups=%v values=%q", groups, tuples)
		r.Case("key-identity", canon(tc), len(tc.Args) >= 2)
		r.H("key-identity.fields", strings.Join(tc.Fields, ","))
		r.H("key-identity.arguments", fmt.Sprint(len(tc.Args)))
		r.CorrCompared++
		if lean != tc.real {
			r.Violate(Violation{Kind: "correspondence", Suite: "key-identity", Input: tc, Observed: tc.real, Expected: lean,
				Note: "real schema.GetIdentityFieldValuesMapFromValues / utils.ToStringKey vs Lean Gorm.Assoc.identityFromValues"})
		}
	}
}

func init() {
	register("C12", func(r *Result, rng *rand.Rand, tier string) {
		defer c12Timed("keys")()
		n, m := 1500, 3000
		if tier == "thorough" {
			n, m = 20000, 60000
		} else if tier == "search" {
			n, m = 3000, 1000
		}
		c12IDTie(r, rng, m)
		var batch []c12kSeq
		for i := 0; i < n && !expired(); i++ {
			s := c12kGenSeq(rng, i%6 != 0)
			r.Case("key-sequences", canon(s), len(s.Ops) >= 2)
			r.H("keys.kind", s.Kind)
			r.H("keys.owners", fmt.Sprint(s.Owners))
			r.H("keys.collision", fmt.Sprint(c12kCollision(s)))
			for _, op := range s.Ops {
				nargs := 0
				for _, a := range op.Args {
					nargs += len(a)
				}
				r.H("keys.op/arguments", fmt.Sprintf("%s/%d", op.Op, nargs))
			}
			if i%211 == 0 {
				r.Sample(map[string]interface{}{"suite": "key-sequences", "input": s})
			}
			batch = append(batch, s)
		}
		obs := make([][]c12kObs, len(batch))
		var wg sync.WaitGroup
		ch := make(chan int)
		for w := 0; w < 4; w++ {
			wg.Add(1)
			go func() {
				defer wg.Done()
				for i := range ch {
					obs[i] = c12kExec(batch[i])
				}
			}()
		}
		for i := range batch {
			ch <- i
		}
		close(ch)
		wg.Wait()
		for i, s := range batch {
			c12kCase(r, s, obs[i])
		}
		if n := c12kSkipped.Load(); n > 0 {
			r.Note("key-sequences: %d sequences not judged (the operated records could not be loaded with Preload)", n)
		}
	})
	replay := func(r *Result, input json.RawMessage) {
		var s c12kSeq
		if err := json.Unmarshal(input, &s); err != nil || c12kKindByName(s.Kind) == nil {
			r.Note("bad replay input: %v", err)
			return
		}
		c12kCase(r, s, c12kExec(s))
	}
	replayers["C12/key-sequences"] = replay
	replayers["C12/key-identity"] = func(r *Result, input json.RawMessage) {} // searched through key-sequences / composite-keys
}
