package main

// C14 round 2 — every way of ENABLING prepared-statement mode must end up on ONE cache per gorm.Open.
//
// Input dimensions varied here (constant in the other C14 suites): Config.PrepareStmt at Open (on/off) × session-level
// enabling on a plain handle / on a PrepareStmt handle / nested / inside an explicit transaction / inside a
// Transaction() callback / inside a nested (SavePoint) transaction × derivations in between (Session{}, NewDB,
// WithContext, Debug, Model, SkipHooks, SkipDefaultTransaction) × several independent sessions from one root ×
// finishers (Scan, Find, Count, First, Row, Rows, Pluck, Exec, Update and Create/Delete through the default
// transaction) × histories (the same text through different handles, outside then inside transactions and back) ×
// which handle Reset / Close go through.
//
// suite "derive" (correspondence): the derivation world of Model/StmtCacheStore.lean (`sc.derive`, instantiated with the
//   regenerated creation-site facts) against the real gorm.Open / Session / Begin / Transaction / Reset / Close: for
//   every handle the kind of its ConnPool and the identities of its PreparedStmtDB struct, Mux (= cache object) and
//   Stmts map must agree (identities renumbered by first appearance on both sides).
// suite "modes" (e2e, no model): real gorm on SQLite behind the recording driver, with a COUNTING ConnPool between gorm
//   and *sql.DB.  Judged:
//     rows       every operation returns what the non-prepared reference database returns;
//     prepares   per cache generation and SQL text, over ALL handles together: at most one PrepareContext on the pool,
//                at most one on a transaction, and none on a transaction once the pool-level statement exists
//                (latitude: a text first seen inside a transaction is cached transaction-bound and re-prepared once by
//                the first non-transaction request — the granularity at which the cache itself decides, DESIGN §4 C14);
//     reset      after Reset through ANY prepared handle (first Reset only: until then every struct shares one map)
//                every statement the pool handed out is closed, and the handles that share the reset struct (plus, when
//                it is the database's own cache, sessions obtained afterwards) keep returning the right rows with at
//                most one PrepareContext per text in the new generation;
//     close      after Close through a handle of the live generation + drain: every statement the pool handed out is
//                closed and no driver statement is open; that handle (and every handle sharing its struct) returns an
//                error; when it is the database's own cache (Config.PrepareStmt root) a prepared session obtained
//                AFTERWARDS from any handle returns an error too and no PrepareContext reaches the pool.
//   Latitude (F14a, while the regenerated facts say Session builds a SECOND struct): handles whose struct was NOT the one
//   Reset/Close went through keep the old map; the generator does not use them again after a Reset/Close.  When the facts
//   say the session-level handle IS the registered struct (F14a repaired) there is no such latitude: every prepared handle
//   is used after the Reset, prepared sessions are obtained after it from any handle, and after Close every one of them
//   must answer with an error.  The oracle itself never looks at the facts: "shares the struct" is pointer identity.

import (
	"context"
	"database/sql"
	"encoding/json"
	"errors"
	"fmt"
	"math/rand"
	"reflect"
	"runtime"
	"strings"
	"sync"
	"sync/atomic"
	"time"

	"github.com/mattn/go-sqlite3"
	"gorm.io/driver/sqlite"
	"gorm.io/gorm"
	"gorm.io/gorm/logger"
)

// ---- counting ConnPool between gorm and *sql.DB ----

type c14mPrep struct {
	Text string `json:"text"`
	Tx   bool   `json:"tx"`
	Gen  int    `json:"gen"`
	stmt *sql.Stmt
}

type c14mPool struct {
	*sql.DB
	mu    sync.Mutex
	preps []c14mPrep
	gen   int
}

func (p *c14mPool) note(q string, tx bool, st *sql.Stmt) {
	p.mu.Lock()
	p.preps = append(p.preps, c14mPrep{Text: q, Tx: tx, Gen: p.gen, stmt: st})
	p.mu.Unlock()
}
func (p *c14mPool) PrepareContext(ctx context.Context, q string) (*sql.Stmt, error) {
	st, err := p.DB.PrepareContext(ctx, q)
	p.note(q, false, st)
	return st, err
}
func (p *c14mPool) BeginTx(ctx context.Context, opts *sql.TxOptions) (gorm.ConnPool, error) {
	tx, err := p.DB.BeginTx(ctx, opts)
	if err != nil {
		return nil, err
	}
	return &c14mTx{Tx: tx, p: p}, nil
}
func (p *c14mPool) GetDBConn() (*sql.DB, error) { return p.DB, nil }
func (p *c14mPool) snapshot() []c14mPrep {
	p.mu.Lock()
	defer p.mu.Unlock()
	return append([]c14mPrep(nil), p.preps...)
}

type c14mTx struct {
	*sql.Tx
	p *c14mPool
}

func (t *c14mTx) PrepareContext(ctx context.Context, q string) (*sql.Stmt, error) {
	st, err := t.Tx.PrepareContext(ctx, q)
	t.p.note(q, true, st)
	return st, err
}

type c14mRow struct {
	ID   int `gorm:"primaryKey"`
	Name string
	Age  int
}

func (c14mRow) TableName() string { return "c14m_rows" }

var c14mCounter int64

func c14mOpen(cfg *gorm.Config, counting bool) (*gorm.DB, *c14mPool, *Recorder, *sql.DB) {
	n := atomic.AddInt64(&c14mCounter, 1)
	dsn := fmt.Sprintf("file:c14modes%d?mode=memory&cache=shared", n)
	rec := &Recorder{Off: true}
	sqlDB := sql.OpenDB(&recConnector{dsn: dsn, drv: &sqlite3.SQLiteDriver{}, rec: rec})
	sqlDB.SetMaxIdleConns(4)
	if _, err := sqlDB.Exec("create table c14m_rows(id integer primary key, name text, age int)"); err != nil {
		panic(err)
	}
	for k := 1; k <= 6; k++ {
		sqlDB.Exec("insert into c14m_rows(id,name,age) values (?,?,?)", k, fmt.Sprintf("n%d", k%3), 10*k)
	}
	if cfg.Logger == nil {
		cfg.Logger = logger.Discard
	}
	pool := &c14mPool{DB: sqlDB}
	var conn gorm.ConnPool = sqlDB
	if counting {
		conn = pool
	}
	db, err := gorm.Open(sqlite.Dialector{Conn: conn}, cfg)
	if err != nil {
		panic(err)
	}
	return db, pool, rec, sqlDB
}

// ---- derivations ----

type c14mCtxKey struct{}

// c14mDerive: a new handle from h; prep = with Session{PrepareStmt: true}; variant picks the flavour
func c14mDerive(h *gorm.DB, prep bool, variant int) *gorm.DB {
	ctx := context.WithValue(context.Background(), c14mCtxKey{}, variant)
	if prep {
		switch variant % 6 {
		case 1:
			return h.Session(&gorm.Session{PrepareStmt: true, NewDB: true})
		case 2:
			return h.Session(&gorm.Session{PrepareStmt: true, Context: ctx})
		case 3:
			return h.Session(&gorm.Session{PrepareStmt: true, SkipDefaultTransaction: true})
		case 4:
			return h.WithContext(ctx).Session(&gorm.Session{PrepareStmt: true})
		case 5:
			return h.Debug().Session(&gorm.Session{PrepareStmt: true, Logger: logger.Discard})
		}
		return h.Session(&gorm.Session{PrepareStmt: true})
	}
	switch variant % 6 {
	case 1:
		return h.WithContext(ctx)
	case 2:
		return h.Debug().Session(&gorm.Session{Logger: logger.Discard})
	case 3:
		return h.Session(&gorm.Session{NewDB: true})
	case 4:
		return h.Session(&gorm.Session{SkipHooks: true})
	case 5:
		return h.Session(&gorm.Session{}).Session(&gorm.Session{NewDB: true})
	}
	return h.Session(&gorm.Session{})
}

// what a handle's ConnPool is: kind + the PreparedStmtDB struct behind it
func c14mPoolOf(h *gorm.DB) (kind string, pdb *gorm.PreparedStmtDB) {
	switch t := h.Statement.ConnPool.(type) {
	case *gorm.PreparedStmtDB:
		return "pdb", t
	case *gorm.PreparedStmtTX:
		return "ptx", t.PreparedStmtDB
	case gorm.TxCommitter:
		return "plainTx", nil
	}
	return "plain", nil
}

func c14mMapID(p *gorm.PreparedStmtDB) uintptr {
	if p == nil || p.Stmts == nil {
		return 0
	}
	return reflect.ValueOf(p.Stmts).Pointer()
}

// ---- suite "derive": Lean derivation world vs real gorm ----

type c14mDOp struct {
	Kind    string `json:"kind"` // session | begin | reset | close
	H       int    `json:"h"`
	Prep    bool   `json:"prep"`
	Variant int    `json:"variant"`
}

type c14mDProg struct {
	Prepare bool      `json:"prepare"`
	Ops     []c14mDOp `json:"ops"`
}

type c14mHandleObs struct {
	Kind   string `json:"kind"`
	Struct int    `json:"struct"`
	Cache  int    `json:"cache"`
	Map    int    `json:"map"`
}

func c14mRenumber(hs []c14mHandleObs) []c14mHandleObs {
	num := func(m map[int]int, x int) int {
		if x < 0 {
			return -1
		}
		if v, ok := m[x]; ok {
			return v
		}
		m[x] = len(m)
		return m[x]
	}
	ms, mc, mm := map[int]int{}, map[int]int{}, map[int]int{}
	out := make([]c14mHandleObs, len(hs))
	for i, h := range hs {
		out[i] = c14mHandleObs{h.Kind, num(ms, h.Struct), num(mc, h.Cache), num(mm, h.Map)}
	}
	return out
}

func c14mGenDProg(rng *rand.Rand) c14mDProg {
	p := c14mDProg{Prepare: rng.Intn(2) == 0}
	n := 1 + rng.Intn(9)
	type hs struct{ tx bool }
	handles := []hs{{false}}
	for i := 0; i < n; i++ {
		h := rng.Intn(len(handles))
		switch r := rng.Intn(20); {
		case r < 8:
			p.Ops = append(p.Ops, c14mDOp{"session", h, true, rng.Intn(6)})
			handles = append(handles, hs{handles[h].tx})
		case r < 12:
			p.Ops = append(p.Ops, c14mDOp{"session", h, false, rng.Intn(6)})
			handles = append(handles, hs{handles[h].tx})
		case r < 17:
			p.Ops = append(p.Ops, c14mDOp{"begin", h, false, 0})
			handles = append(handles, hs{true})
		case r < 19:
			p.Ops = append(p.Ops, c14mDOp{"reset", h, false, 0})
		default:
			p.Ops = append(p.Ops, c14mDOp{"close", h, false, 0})
		}
	}
	return p
}

func c14mRunDProg(p c14mDProg) (obs []c14mHandleObs, nMux int, errText string) {
	db, _, _, sqlDB := c14mOpen(&gorm.Config{PrepareStmt: p.Prepare}, true)
	defer sqlDB.Close()
	handles := []*gorm.DB{db}
	var txs []*gorm.DB
	for _, op := range p.Ops {
		if op.H >= len(handles) {
			continue
		}
		h := handles[op.H]
		switch op.Kind {
		case "session":
			handles = append(handles, c14mDerive(h, op.Prep, op.Variant))
		case "begin":
			if kind, _ := c14mPoolOf(h); kind == "plainTx" || kind == "ptx" {
				// nested: the handle Transaction() passes to its callback after SAVEPOINT
				var in *gorm.DB
				if err := h.Transaction(func(tx *gorm.DB) error { in = tx; return nil }); err != nil {
					errText = "nested Transaction: " + err.Error()
				}
				if in == nil {
					in = h
				}
				handles = append(handles, in)
			} else {
				tx := h.Begin()
				if tx.Error != nil {
					errText = "Begin: " + tx.Error.Error()
				}
				handles = append(handles, tx)
				txs = append(txs, tx)
			}
		case "reset", "close":
			if _, pdb := c14mPoolOf(h); pdb != nil {
				if op.Kind == "reset" {
					pdb.Reset()
				} else {
					pdb.Close()
				}
			}
		}
	}
	sid, cid, mid := map[*gorm.PreparedStmtDB]int{}, map[interface{}]int{}, map[uintptr]int{}
	for _, h := range handles {
		kind, pdb := c14mPoolOf(h)
		o := c14mHandleObs{kind, -1, -1, -1}
		if pdb != nil {
			if _, ok := sid[pdb]; !ok {
				sid[pdb] = len(sid)
			}
			if _, ok := cid[pdb.Mux]; !ok {
				cid[pdb.Mux] = len(cid)
			}
			o.Struct, o.Cache = sid[pdb], cid[pdb.Mux]
			if m := c14mMapID(pdb); m != 0 {
				if _, ok := mid[m]; !ok {
					mid[m] = len(mid)
				}
				o.Map = mid[m]
			}
		}
		obs = append(obs, o)
	}
	for i := len(txs) - 1; i >= 0; i-- {
		txs[i].Rollback()
	}
	return c14mRenumber(obs), len(cid), errText
}

func c14mDeriveSuite(r *Result, rng *rand.Rand, n int) {
	var progs []c14mDProg
	var real [][]c14mHandleObs
	var ops [][]interface{}
	badMux := 0
	for i := 0; i < n && !expired(); i++ {
		p := c14mGenDProg(rng)
		obs, nMux, et := c14mRunDProg(p)
		if et != "" {
			r.Violate(Violation{Kind: "e2e", Suite: "derive", Input: p, Observed: et, Expected: "derivations succeed"})
			continue
		}
		nPrep := 0
		for _, o := range obs {
			if o.Struct >= 0 {
				nPrep++
			}
			r.H("c14.derive.pool-kind", o.Kind)
		}
		r.H("c14.derive.caches", fmt.Sprint(nMux))
		r.H("c14.derive.prepared-handles", fmt.Sprint(nPrep))
		r.Case("derive", canon(p), nPrep >= 2)
		if nMux > 1 && badMux < 5 {
			badMux++
			// "session-level enabling shares the cache": one gorm.Open, one cache object, however the handles were derived
			r.Violate(Violation{Kind: "e2e", Suite: "derive", Input: p, Observed: obs, Expected: "every prepared handle derived from one gorm.Open holds the Mux of ONE cache object", Note: fmt.Sprintf("%d distinct Mux", nMux)})
		}
		var seq [][]interface{}
		for _, o := range p.Ops {
			seq = append(seq, []interface{}{o.Kind, o.H, o.Prep})
			r.H("c14.derive.op", fmt.Sprintf("%s prep=%v", o.Kind, o.Prep))
		}
		if seq == nil {
			seq = [][]interface{}{}
		}
		progs, real = append(progs, p), append(real, obs)
		ops = append(ops, []interface{}{"sc.derive", p.Prepare, seq})
	}
	outs, err := AskLean(ops)
	if err != nil {
		r.Violate(Violation{Kind: "correspondence", Suite: "derive", Note: err.Error()})
		return
	}
	for i, raw := range outs {
		var m struct {
			Handles  []c14mHandleObs `json:"handles"`
			Caches   int             `json:"caches"`
			OneCache bool            `json:"one_cache"`
		}
		r.CorrCompared++
		if json.Unmarshal(raw, &m) != nil {
			r.Violate(Violation{Kind: "correspondence", Suite: "derive", Input: progs[i], Observed: real[i], Expected: json.RawMessage(raw), Note: "bad model answer"})
			continue
		}
		if canon(c14mRenumber(m.Handles)) != canon(real[i]) {
			r.Violate(Violation{Kind: "correspondence", Suite: "derive", Input: progs[i], Observed: real[i], Expected: c14mRenumber(m.Handles),
				Note: "pool kind / struct / Mux / map identities of the derived handles differ from the Lean derivation world"})
		}
		r.H("c14.derive.model-one-cache", fmt.Sprint(m.OneCache))
	}
}

// ---- suite "modes": e2e ----

type c14mStep struct {
	Op      string     `json:"op"` // session | begin | end | query | txfunc | burst
	H       int        `json:"h"`
	Prep    bool       `json:"prep,omitempty"`
	Variant int        `json:"variant,omitempty"`
	Q       int        `json:"q,omitempty"`
	Arg     int        `json:"arg,omitempty"`
	Hs      []int      `json:"hs,omitempty"`
	Inner   []c14mStep `json:"inner,omitempty"`
}

type c14mProg struct {
	Prepare   bool       `json:"prepare"`
	SkipDefTx bool       `json:"skip_default_tx"`
	Steps     []c14mStep `json:"steps"`
	ResetVia  int        `json:"reset_via"` // handle index, -1 = no Reset phase
	Post      []c14mStep `json:"post"`      // after the Reset: only handles that stay live
	CloseVia  int        `json:"close_via"` // handle index
}

const c14mNQ = 10

func c14mIsWrite(q int) bool { return q >= 7 }

// the operations; every one is a fixed SQL text (per handle-independent chain) with varying arguments
func c14mQuery(d *gorm.DB, q, a int) (string, error) {
	switch q {
	case 0:
		var out c14mRow
		e := d.Raw("select id, name, age from c14m_rows where id = ?", 1+a%6).Scan(&out).Error
		return fmt.Sprint(out), e
	case 1:
		var out []c14mRow
		e := d.Table("c14m_rows").Where("age > ?", a).Order("id").Find(&out).Error
		return fmt.Sprint(out), e
	case 2:
		var n int64
		e := d.Table("c14m_rows").Where("name = ?", fmt.Sprintf("n%d", a%3)).Count(&n).Error
		return fmt.Sprint(n), e
	case 3:
		var out c14mRow
		e := d.First(&out, 1+a%6).Error
		return fmt.Sprint(out), e
	case 4:
		var n int64
		e := d.Raw("select count(*) from c14m_rows where age >= ?", a).Row().Scan(&n)
		return fmt.Sprint(n), e
	case 5:
		rows, e := d.Table("c14m_rows").Select("name").Where("id <= ?", 1+a%6).Order("id").Rows()
		if e != nil {
			return "", e
		}
		defer rows.Close()
		var names []string
		for rows.Next() {
			var s string
			if e := rows.Scan(&s); e != nil {
				return "", e
			}
			names = append(names, s)
		}
		return fmt.Sprint(names), rows.Err()
	case 6:
		var ages []int
		e := d.Model(&c14mRow{}).Where("age < ?", a).Order("id").Pluck("age", &ages).Error
		return fmt.Sprint(ages), e
	case 7:
		res := d.Exec("update c14m_rows set age = age + 0 where id = ?", 1+a%6)
		return fmt.Sprint(res.RowsAffected), res.Error
	case 8:
		res := d.Model(&c14mRow{}).Where("id = ?", 1+a%6).Update("age", gorm.Expr("age + 0"))
		return fmt.Sprint(res.RowsAffected), res.Error
	case 9:
		row := c14mRow{ID: 100 + a, Name: "tmp", Age: a}
		res := d.Create(&row)
		if res.Error != nil {
			return "", res.Error
		}
		res2 := d.Delete(&c14mRow{}, 100+a)
		return fmt.Sprint(res.RowsAffected, res2.RowsAffected), res2.Error
	}
	return "", errors.New("bad q")
}

type c14mObs struct {
	Mismatch    []string `json:"mismatch,omitempty"`
	Panic       string   `json:"panic,omitempty"`
	Dup         []string `json:"duplicate_prepares,omitempty"`
	OpenAtReset int      `json:"unclosed_after_reset"`
	OpenAtClose int      `json:"unclosed_after_close"`
	DrvAtClose  int64    `json:"driver_stmts_after_close"`
	AfterClose  []string `json:"after_close,omitempty"`
	NPreps      int      `json:"prepares"`
	NTexts      int      `json:"texts"`
	NPrepared   int      `json:"prepared_handles"`
	Caches      int      `json:"caches"`
	Structs     int      `json:"structs"` // distinct *PreparedStmtDB behind the live non-transaction prepared handles
}

type c14mEnv struct {
	handles []*gorm.DB
	ref     *gorm.DB
	obs     *c14mObs
}

func (e *c14mEnv) check(where string, h int, q, a int, d *gorm.DB) {
	got, e1 := c14mQuery(d, q, a)
	want, e2 := c14mQuery(e.ref, q, a)
	if e1 != nil || e2 != nil || got != want {
		e.obs.Mismatch = append(e.obs.Mismatch, fmt.Sprintf("%s handle %d q%d arg %d: got %s / %v, reference %s / %v", where, h, q, a, got, e1, want, e2))
	}
}

func (e *c14mEnv) run(steps []c14mStep, open map[int]*gorm.DB) {
	for _, s := range steps {
		if s.H >= len(e.handles) || e.handles[s.H] == nil {
			continue
		}
		h := e.handles[s.H]
		switch s.Op {
		case "session":
			e.handles = append(e.handles, c14mDerive(h, s.Prep, s.Variant))
		case "begin":
			tx := h.Begin()
			if tx.Error != nil {
				e.obs.Mismatch = append(e.obs.Mismatch, fmt.Sprintf("Begin on handle %d: %v", s.H, tx.Error))
			}
			e.handles = append(e.handles, tx)
			open[len(e.handles)-1] = tx
		case "end":
			if tx, ok := open[s.H]; ok {
				var err error
				if s.Variant%2 == 0 {
					err = tx.Commit().Error
				} else {
					err = tx.Rollback().Error
				}
				if err != nil {
					e.obs.Mismatch = append(e.obs.Mismatch, fmt.Sprintf("end of transaction %d: %v", s.H, err))
				}
				delete(open, s.H)
			}
		case "query":
			e.check("", s.H, s.Q, s.Arg, h)
		case "txfunc":
			n := len(e.handles)
			err := h.Transaction(func(tx *gorm.DB) error {
				e.handles = append(e.handles, tx)
				e.run(s.Inner, open)
				if s.Variant%3 == 2 {
					return errors.New("c14m rollback")
				}
				return nil
			})
			if err != nil && s.Variant%3 != 2 {
				e.obs.Mismatch = append(e.obs.Mismatch, fmt.Sprintf("Transaction on handle %d: %v", s.H, err))
			}
			for i := n; i < len(e.handles); i++ {
				e.handles[i] = nil // handles born inside the callback die with it
			}
		case "burst":
			// several handles ask for the same (usually new) text at the same time
			var wg sync.WaitGroup
			var mu sync.Mutex
			barrier := make(chan struct{})
			for _, hi := range s.Hs {
				if hi >= len(e.handles) || e.handles[hi] == nil {
					continue
				}
				wg.Add(1)
				go func(hi int) {
					defer wg.Done()
					<-barrier
					got, e1 := c14mQuery(e.handles[hi].WithContext(context.Background()), s.Q, s.Arg)
					mu.Lock()
					defer mu.Unlock()
					want, e2 := c14mQuery(e.ref, s.Q, s.Arg)
					if e1 != nil || e2 != nil || got != want {
						e.obs.Mismatch = append(e.obs.Mismatch, fmt.Sprintf("burst handle %d q%d: got %s / %v, reference %s / %v", hi, s.Q, got, e1, want, e2))
					}
				}(hi)
			}
			close(barrier)
			wg.Wait()
		}
	}
}

func c14mUnclosed(preps []c14mPrep) int {
	n := 0
	for _, p := range preps {
		if !p.Tx && p.stmt != nil && !c14StmtClosed(p.stmt) {
			n++
		}
	}
	return n
}

// c14mDrain waits (bounded: the closers are goroutines that only have to be scheduled) until f holds
func c14mDrain(f func() bool) bool {
	deadline := time.Now().Add(400 * time.Millisecond)
	for !f() {
		if time.Now().After(deadline) {
			return f()
		}
		time.Sleep(100 * time.Microsecond)
	}
	return true
}

func c14mRunProg(p c14mProg) (obs *c14mObs) {
	obs = &c14mObs{}
	db, pool, rec, sqlDB := c14mOpen(&gorm.Config{PrepareStmt: p.Prepare, SkipDefaultTransaction: p.SkipDefTx}, true)
	ref, _, _, refSQL := c14mOpen(&gorm.Config{SkipDefaultTransaction: p.SkipDefTx}, false)
	defer sqlDB.Close()
	defer refSQL.Close()
	env := &c14mEnv{handles: []*gorm.DB{db}, ref: ref, obs: obs}
	open := map[int]*gorm.DB{}
	defer func() {
		if x := recover(); x != nil {
			obs.Panic = fmt.Sprint(x)
		}
	}()
	env.run(p.Steps, open)
	for i, tx := range open { // whatever the program left open
		tx.Rollback()
		delete(open, i)
	}
	muxes := map[interface{}]bool{}
	for _, h := range env.handles {
		if h == nil {
			continue
		}
		if _, pdb := c14mPoolOf(h); pdb != nil {
			obs.NPrepared++
			muxes[pdb.Mux] = true
		}
	}
	obs.Caches = len(muxes)
	structs := map[*gorm.PreparedStmtDB]bool{}
	for _, h := range env.handles {
		if h == nil {
			continue
		}
		if kind, pdb := c14mPoolOf(h); kind == "pdb" {
			structs[pdb] = true
		}
	}
	obs.Structs = len(structs)
	structOf := func(i int) *gorm.PreparedStmtDB {
		if i < 0 || i >= len(env.handles) || env.handles[i] == nil {
			return nil
		}
		if kind, pdb := c14mPoolOf(env.handles[i]); kind == "pdb" {
			return pdb
		}
		return nil
	}
	rootStruct := structOf(0) // non-nil iff Config.PrepareStmt: the database's own cache
	// ---- Reset phase ----
	if rs := structOf(p.ResetVia); rs != nil {
		rs.Reset()
		pool.mu.Lock()
		pool.gen = 1
		pool.mu.Unlock()
		before := pool.snapshot()
		c14mDrain(func() bool { return c14mUnclosed(before) == 0 })
		obs.OpenAtReset = c14mUnclosed(before)
		// handles of other structs are stale now (F14a): never used again
		for i, h := range env.handles {
			if h == nil {
				continue
			}
			if _, pdb := c14mPoolOf(h); pdb != nil && pdb != rs {
				env.handles[i] = nil
			}
		}
		env.run(p.Post, open)
		for i, tx := range open {
			tx.Rollback()
			delete(open, i)
		}
	}
	// ---- duplicates, per generation and text ----
	preps := pool.snapshot()
	type key struct {
		gen  int
		text string
	}
	poolN, txN, txAfterPool := map[key]int{}, map[key]int{}, map[key]bool{}
	texts := map[string]bool{}
	for _, pr := range preps {
		k := key{pr.Gen, pr.Text}
		texts[pr.Text] = true
		if pr.Tx {
			txN[k]++
			if poolN[k] > 0 {
				txAfterPool[k] = true
			}
		} else {
			poolN[k]++
		}
	}
	obs.NPreps, obs.NTexts = len(preps), len(texts)
	for k, n := range poolN {
		if n > 1 {
			obs.Dup = append(obs.Dup, fmt.Sprintf("generation %d: %d pool-level PrepareContext calls for %q", k.gen, n, k.text))
		}
	}
	for k, n := range txN {
		if n > 1 {
			obs.Dup = append(obs.Dup, fmt.Sprintf("generation %d: %d transaction-level PrepareContext calls for %q", k.gen, n, k.text))
		}
		if txAfterPool[k] {
			obs.Dup = append(obs.Dup, fmt.Sprintf("generation %d: %q prepared on a transaction although the pool-level statement was already prepared", k.gen, k.text))
		}
	}
	// ---- Close phase ----
	cs := structOf(p.CloseVia)
	if cs == nil {
		return obs
	}
	cs.Close()
	all := pool.snapshot()
	c14mDrain(func() bool { return c14mUnclosed(all) == 0 && atomic.LoadInt64(&rec.Stmts) == 0 })
	obs.OpenAtClose, obs.DrvAtClose = c14mUnclosed(all), atomic.LoadInt64(&rec.Stmts)
	try := func(who string, d *gorm.DB) {
		n0 := len(pool.snapshot())
		_, err := c14mQuery(d, 0, 1)
		switch {
		case err == nil:
			obs.AfterClose = append(obs.AfterClose, who+": query succeeded through the closed cache")
		case len(pool.snapshot()) != n0:
			obs.AfterClose = append(obs.AfterClose, who+": a PrepareContext reached the pool through the closed cache ("+err.Error()+")")
		}
	}
	for i, h := range env.handles {
		if h == nil {
			continue
		}
		if kind, pdb := c14mPoolOf(h); kind == "pdb" && pdb == cs {
			try(fmt.Sprintf("handle %d (shares the closed struct)", i), h)
		}
	}
	for i, h := range env.handles {
		if h == nil {
			continue
		}
		if kind, _ := c14mPoolOf(h); kind == "pdb" || kind == "plain" {
			// a prepared session obtained AFTER the Close: it must fail when the closed struct is the database's own
			// cache, and whenever the new handle turns out to work through the closed struct itself
			d := c14mDerive(h, true, i)
			if _, dp := c14mPoolOf(d); (rootStruct != nil && cs == rootStruct) || dp == cs {
				try(fmt.Sprintf("prepared session obtained after Close from handle %d", i), d)
			}
		}
	}
	return obs
}

func c14mJudge(o *c14mObs) []c14Verdict {
	var out []c14Verdict
	if o.Panic != "" {
		out = append(out, c14Verdict{"result", "panic: " + o.Panic, ""})
	}
	if len(o.Mismatch) > 0 {
		out = append(out, c14Verdict{"result", strings.Join(o.Mismatch, "; "), ""})
	}
	if len(o.Dup) > 0 {
		out = append(out, c14Verdict{"prepares", strings.Join(o.Dup, "; "), ""})
	}
	if o.OpenAtReset > 0 {
		out = append(out, c14Verdict{"leak", fmt.Sprintf("%d statements handed out by the pool still open after Reset + drain", o.OpenAtReset), ""})
	}
	if o.OpenAtClose > 0 || o.DrvAtClose != 0 {
		out = append(out, c14Verdict{"leak", fmt.Sprintf("after Close + drain: %d pool statements unclosed, %d driver statements open", o.OpenAtClose, o.DrvAtClose), ""})
	}
	if len(o.AfterClose) > 0 {
		out = append(out, c14Verdict{"closed", strings.Join(o.AfterClose, "; "), ""})
	}
	return out
}

// ---- generator ----

type c14mGenH struct {
	prepared, tx, alive bool
	txRoot              int // index of the explicit transaction handle this one lives in (-1 = none)
	group               int // handles with the same group share one PreparedStmtDB struct (-1 = not prepared)
}

type c14mGen struct {
	rng    *rand.Rand
	hs     []c14mGenH
	openTx int
	groups int
	reuse  bool // facts: Session(PrepareStmt) outside a transaction hands out the registered struct itself
}

func (g *c14mGen) pick(pred func(h c14mGenH) bool) int {
	var c []int
	for i, h := range g.hs {
		if h.alive && pred(h) {
			c = append(c, i)
		}
	}
	if len(c) == 0 {
		return -1
	}
	return c[g.rng.Intn(len(c))]
}

func (g *c14mGen) derive(h int, prep bool) c14mGenH {
	n := g.hs[h]
	if prep {
		n.prepared = true
		if !n.tx && g.reuse {
			n.group = 0 // the registered struct itself: one group for every prepared handle
			if g.groups == 0 {
				g.groups = 1
			}
		} else if !n.tx {
			n.group = g.groups // Session(PrepareStmt) outside a transaction builds a new struct
			g.groups++
		} else {
			n.group = -2 // bound to the stored struct: not addressable as a pdb handle
		}
	}
	return n
}

// a few steps; inTx >= 0: inside a Transaction() callback whose handle is inTx (only that subtree is used)
func (g *c14mGen) steps(n int, inTx int, depth int, allowPrepSession bool) []c14mStep {
	var out []c14mStep
	for i := 0; i < n; i++ {
		usable := func(h c14mGenH) bool { return inTx < 0 || h.txRoot == inTx }
		r := g.rng.Intn(100)
		switch {
		case r < 22: // session
			h := g.pick(usable)
			if h < 0 {
				continue
			}
			prep := g.rng.Intn(3) != 0 && allowPrepSession
			out = append(out, c14mStep{Op: "session", H: h, Prep: prep, Variant: g.rng.Intn(6)})
			g.hs = append(g.hs, g.derive(h, prep))
		case r < 30 && inTx < 0 && g.openTx < 2: // explicit Begin
			h := g.pick(func(h c14mGenH) bool { return !h.tx })
			if h < 0 {
				continue
			}
			out = append(out, c14mStep{Op: "begin", H: h})
			n := g.hs[h]
			n.tx, n.txRoot = true, len(g.hs)
			if n.prepared {
				n.group = -2
			}
			g.hs = append(g.hs, n)
			g.openTx++
		case r < 36 && inTx < 0 && g.openTx > 0: // Commit / Rollback of an explicit transaction
			h := g.pick(func(h c14mGenH) bool { return h.tx })
			if h < 0 {
				continue
			}
			root := g.hs[h].txRoot
			out = append(out, c14mStep{Op: "end", H: root, Variant: g.rng.Intn(2)})
			for i := range g.hs {
				if g.hs[i].txRoot == root {
					g.hs[i].alive = false
				}
			}
			g.openTx--
		case r < 46 && depth < 2 && g.openTx == 0: // Transaction(func) with inner steps (nested: SavePoint)
			h := g.pick(usable)
			if h < 0 {
				continue
			}
			st := c14mStep{Op: "txfunc", H: h, Variant: g.rng.Intn(3)}
			n := g.hs[h]
			n.tx = true
			if n.prepared {
				n.group = -2
			}
			idx := len(g.hs)
			if inTx < 0 || true {
				n.txRoot = idx
			}
			g.hs = append(g.hs, n)
			st.Inner = g.steps(1+g.rng.Intn(4), idx, depth+1, allowPrepSession)
			for i := idx; i < len(g.hs); i++ {
				g.hs[i].alive = false
			}
			out = append(out, st)
		case r < 52 && inTx < 0: // burst: several prepared non-transaction handles, one text, at the same time
			var hs []int
			for i, h := range g.hs {
				if h.alive && h.prepared && !h.tx && len(hs) < 5 {
					hs = append(hs, i)
				}
			}
			if len(hs) < 2 {
				continue
			}
			out = append(out, c14mStep{Op: "burst", Hs: hs, Q: g.rng.Intn(7), Arg: g.rng.Intn(60)})
		default: // query / write
			h := g.pick(usable)
			if h < 0 {
				continue
			}
			q := g.rng.Intn(c14mNQ)
			if c14mIsWrite(q) && g.openTx > 0 {
				q = g.rng.Intn(7) // SQLite shared-cache table locks: no writes while an explicit transaction is open
			}
			out = append(out, c14mStep{Op: "query", H: h, Q: q, Arg: g.rng.Intn(60)})
		}
	}
	return out
}

func c14mGenProg(rng *rand.Rand) c14mProg {
	p := c14mProg{Prepare: rng.Intn(3) != 0, SkipDefTx: rng.Intn(3) == 0, ResetVia: -1, CloseVia: -1}
	g := &c14mGen{rng: rng, reuse: c14Facts().SessReuse}
	root := c14mGenH{prepared: p.Prepare, alive: true, txRoot: -1, group: -1}
	if p.Prepare {
		root.group = 0
		g.groups = 1
	}
	g.hs = []c14mGenH{root}
	// make sure the interesting combination is frequent: at least one prepared session early
	p.Steps = append(p.Steps, c14mStep{Op: "session", H: 0, Prep: true, Variant: rng.Intn(6)})
	g.hs = append(g.hs, g.derive(0, true))
	p.Steps = append(p.Steps, g.steps(4+rng.Intn(10), -1, 0, true)...)
	// end every explicit transaction
	for i, h := range g.hs {
		if h.alive && h.tx && h.txRoot == i {
			p.Steps = append(p.Steps, c14mStep{Op: "end", H: i, Variant: rng.Intn(2)})
			for j := range g.hs {
				if g.hs[j].txRoot == i {
					g.hs[j].alive = false
				}
			}
		}
	}
	g.openTx = 0
	addressable := func(h c14mGenH) bool { return h.prepared && !h.tx && h.group >= 0 }
	if rng.Intn(2) == 0 {
		if v := g.pick(addressable); v >= 0 {
			p.ResetVia = v
			grp := g.hs[v].group
			for i := range g.hs {
				if g.hs[i].prepared && g.hs[i].group != grp {
					g.hs[i].alive = false // stale structs (F14a): not used again
				}
			}
			// new prepared sessions copy the STORED struct's map: fresh only when the database's own cache was reset
			// (repaired F14a: always — there is one struct)
			p.Post = g.steps(3+rng.Intn(6), -1, 0, g.reuse || (p.Prepare && grp == 0))
			for i, h := range g.hs {
				if h.alive && h.tx && h.txRoot == i {
					p.Post = append(p.Post, c14mStep{Op: "end", H: i, Variant: rng.Intn(2)})
					for j := range g.hs {
						if g.hs[j].txRoot == i {
							g.hs[j].alive = false
						}
					}
				}
			}
		}
	}
	if v := g.pick(addressable); v >= 0 {
		p.CloseVia = v
	}
	return p
}

func c14mReport(r *Result, p c14mProg, o *c14mObs) {
	for _, v := range c14mJudge(o) {
		r.Violate(Violation{Kind: "e2e", Suite: "modes", Input: p, Observed: v.Detail, Expected: "C14: " + v.What + " oracle (one cache per gorm.Open)", Note: fmt.Sprintf("prepared handles %d, cache objects (distinct Mux) %d", o.NPrepared, o.Caches)})
	}
}

func c14mModesSuite(r *Result, rng *rand.Rand, n int) {
	bad := 0
	for i := 0; i < n && !expired(); i++ {
		if bad >= 5 {
			r.Note("modes suite: %d violating programs, the remaining programs are skipped", bad)
			return
		}
		p := c14mGenProg(rng)
		var o *c14mObs
		if !c14Bounded(c14GormTimeout(), func() { o = c14mRunProg(p) }) {
			r.Violate(Violation{Kind: "e2e", Suite: "modes", Input: p, Observed: "the program did not finish (goroutines blocked inside the prepared-statement cache)", Expected: "no deadlock"})
			return
		}
		r.Case("modes", canon(p), o.NPrepared >= 2 && o.NPreps >= 2)
		r.H("c14.modes.open", fmt.Sprintf("PrepareStmt=%v", p.Prepare))
		r.H("c14.modes.prepared-handles", fmt.Sprint(o.NPrepared))
		r.H("c14.modes.cache-objects", fmt.Sprint(o.Caches))
		r.H("c14.modes.structs", fmt.Sprint(o.Structs))
		r.H("c14.modes.reset", fmt.Sprint(p.ResetVia >= 0))
		r.H("c14.modes.close-via-root", fmt.Sprint(p.CloseVia == 0))
		var count func(ss []c14mStep)
		count = func(ss []c14mStep) {
			for _, s := range ss {
				k := s.Op
				if s.Op == "session" {
					k = fmt.Sprintf("session prep=%v", s.Prep)
				}
				r.H("c14.modes.step", k)
				count(s.Inner)
			}
		}
		count(p.Steps)
		count(p.Post)
		if i%40 == 0 {
			r.Sample(map[string]interface{}{"suite": "modes", "prog": p, "obs": o})
		}
		c14mReport(r, p, o)
		if len(c14mJudge(o)) > 0 {
			bad++
		}
	}
}


// ---- F14d probe: concurrent FIRST prepared sessions (is the registration in cacheStore atomic?) ----
//
// Witness of the Lean theorem C14_first_session_race_counterexample on the real code: goroutines released together call
// Session(&Session{PrepareStmt: true}) on a database opened WITHOUT Config.PrepareStmt; with Load-then-Store, when two of
// them miss the Load before either Stores, each creates its own cache (distinct Mux).  Timing-dependent.
// Demanded in EVERY round, whatever the facts say (C14_first_session_atomic / _partial): the handles of one burst hold
// ONE Mux.  More than one is the listed finding F14d while it is listed, an ordinary violation otherwise; and when the
// regenerated facts say the registration is a LoadOrStore (`sc.cfg`: sess_atomic) it is in addition a broken tie — the
// model instantiated with the facts (`sc.first` on the witness schedule) excludes it.
// Control (C14_first_session_partial): with a cache already registered (Config.PrepareStmt root) the same burst must
// always end on ONE cache — anything else is a violation.
func c14mFirstSessionProbe(r *Result, rounds int) {
	burst := func(prepareRoot bool) (muxes int, texts int) {
		n := atomic.AddInt64(&c14mCounter, 1)
		sqlDB := sql.OpenDB(&recConnector{dsn: fmt.Sprintf("file:c14first%d?mode=memory&cache=shared", n), drv: &sqlite3.SQLiteDriver{}, rec: &Recorder{Off: true}})
		defer sqlDB.Close()
		pool := &c14mPool{DB: sqlDB}
		db, err := gorm.Open(sqlite.Dialector{Conn: pool}, &gorm.Config{PrepareStmt: prepareRoot, Logger: logger.Discard})
		if err != nil {
			panic(err)
		}
		const g = 12
		out := make([]*gorm.DB, g)
		var wg sync.WaitGroup
		var ready, goFlag int32
		for k := 0; k < g; k++ {
			wg.Add(1)
			go func(k int) {
				defer wg.Done()
				atomic.AddInt32(&ready, 1)
				for atomic.LoadInt32(&goFlag) == 0 { // spinning start line: the calls begin within nanoseconds of each other
					runtime.Gosched()
				}
				out[k] = db.Session(&gorm.Session{PrepareStmt: true})
			}(k)
		}
		for atomic.LoadInt32(&ready) < g {
			runtime.Gosched()
		}
		atomic.StoreInt32(&goFlag, 1)
		wg.Wait()
		mux := map[interface{}]bool{}
		for _, h := range out {
			if _, pdb := c14mPoolOf(h); pdb != nil {
				mux[pdb.Mux] = true
			}
		}
		if len(mux) > 1 {
			// the behavioural consequence: one text through every handle
			for _, h := range out {
				var x int
				h.Raw("select 41 + ?", 1).Scan(&x)
			}
			for _, pr := range pool.snapshot() {
				if strings.HasPrefix(pr.Text, "select 41") {
					texts++
				}
			}
		}
		return len(mux), texts
	}
	facts := c14Facts()
	seen, at, preps, done := 0, 0, 0, 0
	for i := 0; i < rounds && !expired(); i++ {
		done++
		if i%8 == 0 {
			if m, _ := burst(true); m != 1 {
				r.Violate(Violation{Kind: "e2e", Suite: "modes", Input: map[string]interface{}{"probe": "concurrent prepared sessions on a PrepareStmt root", "round": i},
					Observed: fmt.Sprintf("%d distinct caches (Mux)", m), Expected: "one cache: it is registered before any session starts"})
				return
			}
		}
		if m, t := burst(false); m > 1 {
			seen, at, preps = m, i+1, t
			break
		}
	}
	r.Case("modes", "first-session-probe", true)
	r.H("c14.first-session.rounds", fmt.Sprint(done))
	if seen > 0 {
		what := fmt.Sprintf("gorm API: 12 goroutines call Session(PrepareStmt) at the same time on a database opened without Config.PrepareStmt: %d cache objects (round %d); the same text through every handle: %d PrepareContext calls", seen, at, preps)
		if facts.OK && facts.SessAtomic {
			// the model the theorems are about (registration by LoadOrStore) does not have this behaviour
			model := "?"
			if outs, err := AskLean([][]interface{}{{"sc.first", [][]interface{}{{"load", 0}, {"load", 1}, {"build", 0}, {"build", 1}}}}); err == nil && len(outs) == 1 {
				model = string(outs[0])
			}
			r.Violate(Violation{Kind: "correspondence", Suite: "modes", Input: "first-session-probe", Observed: what,
				Expected: "model with the regenerated registration facts (sess_atomic) on the witness schedule: " + model,
				Note: "the facts say DB.Session registers with LoadOrStore, the real code still ends with several caches"})
		}
		if listed("F14d-C14-concurrent-first-session") {
			r.KnownFinding("F14d-C14-concurrent-first-session", what)
		} else {
			r.Violate(Violation{Kind: "e2e", Suite: "modes", Input: "first-session-probe", Observed: what, Expected: "one cache per gorm.Open"})
		}
	} else if facts.OK && facts.SessAtomic {
		r.Note("probe F14d (concurrent first prepared sessions): one cache in each of %d bursts (facts: DB.Session registers with LoadOrStore)", done)
	} else {
		r.Note("probe F14d (concurrent first prepared sessions): not reproduced in %d rounds (timing-dependent)", done)
	}
}

func init() {
	replayers["C14/modes"] = func(r *Result, input json.RawMessage) {
		var name string
		if json.Unmarshal(input, &name) == nil && name == "first-session-probe" {
			c14mFirstSessionProbe(r, 20000)
			return
		}
		var p c14mProg
		if json.Unmarshal(input, &p) != nil {
			return
		}
		for k := 0; k < 3; k++ { // bursts are free-running: a few attempts
			o := c14mRunProg(p)
			if len(c14mJudge(o)) > 0 {
				c14mReport(r, p, o)
				return
			}
		}
	}
	replayers["C14/derive"] = func(r *Result, input json.RawMessage) {
		var p c14mDProg
		if json.Unmarshal(input, &p) != nil {
			return
		}
		obs, nMux, et := c14mRunDProg(p)
		if et != "" {
			r.Violate(Violation{Kind: "e2e", Suite: "derive", Input: p, Observed: et, Expected: "derivations succeed"})
		}
		if nMux > 1 {
			r.Violate(Violation{Kind: "e2e", Suite: "derive", Input: p, Observed: obs, Expected: "every prepared handle derived from one gorm.Open holds the Mux of ONE cache object", Note: fmt.Sprintf("%d distinct Mux", nMux)})
		}
	}
	register("C14", func(r *Result, rng *rand.Rand, tier string) {
		nDerive, nModes, nFirst := 600, 220, 1500
		if tier == "thorough" {
			nDerive, nModes, nFirst = 8000, 2500, 20000
		} else if tier == "search" {
			nDerive, nModes, nFirst = 3000, 1500, 3000
		}
		if !listed("F14d-C14-concurrent-first-session") && tier != "thorough" {
			nFirst *= 2 // claimed repaired: a timing-dependent witness gets twice the bursts before the run accepts that claim
		}
		c14mDeriveSuite(r, rng, nDerive)
		c14mModesSuite(r, rng, nModes)
		c14mFirstSessionProbe(r, nFirst)
	})
}
