package main

// C07 round 5 — family "stocklog" of the race-detector programs.
//
// DIMENSION: the LOGGER the shared handle uses.  Every other family installs the harness' own trace logger (whose LogMode
// returns the receiver and which has no level): gorm's OWN logger (`logger.New(writer, cfg)`, and the process-wide
// `logger.Default` a handle gets when its Config names no logger) was never on a shared handle.  Here the shared handle logs
// through gorm's stock logger writing into a capturing Writer, base level Silent / Error / Warn / Info; every goroutine runs
// operations whose statements carry a (goroutine, operation) TAG in their text, either on the shared handle bare / through a
// plain Session / WithContext (quiet derivations: never touch the logger), or through Debug() /
// Session{Logger: h.Logger.LogMode(x)} / Session{Logger: logger.Default.LogMode(x)} (derivations that ask for a logger of
// another level FOR THIS CHAIN ONLY).  Odd goroutines only use quiet derivations.
//
// Oracle: what the captured log holds per (goroutine, operation) — which kinds of lines, how many — must be what the same
// goroutine's program produces when it runs ALONE: the serial reference of this family runs every goroutine's program on a
// handle (and a stock logger) of its own.  A goroutine that logs nothing alone must log nothing concurrently.  Results and
// final rows are compared as in every family, and the race detector sees the stock logger's fields (the capturing writer has
// its own mutex; SlowThreshold is off so no line depends on timing).

import (
	"context"
	"fmt"
	"math/rand"
	"regexp"
	"sort"
	"strings"
	"sync"
	"time"

	"gorm.io/driver/sqlite"
	"gorm.io/gorm"
	"gorm.io/gorm/logger"
)

type c07CapWriter struct {
	mu    sync.Mutex
	lines map[int][]string // tag -> line kinds
	other []string
}

var c07ReTag = regexp.MustCompile(`\b5\d{6}\b`)

func (w *c07CapWriter) Printf(format string, args ...interface{}) {
	kind := "msg"
	if strings.Contains(format, "[rows:") {
		kind = "trace"
		if len(args) >= 5 {
			kind = "trace+note" // error / slow-SQL variant
		}
	}
	text := ""
	for i := len(args) - 1; i >= 0; i-- {
		if s, ok := args[i].(string); ok {
			text = s
			break
		}
	}
	tag := 0
	if m := c07ReTag.FindString(text); m != "" {
		fmt.Sscan(m, &tag)
	}
	w.mu.Lock()
	if tag == 0 {
		if len(text) > 120 {
			text = text[:120]
		}
		w.other = append(w.other, kind+":"+c07SQLShape(text))
	} else {
		if w.lines == nil {
			w.lines = map[int][]string{}
		}
		w.lines[tag] = append(w.lines[tag], kind)
	}
	w.mu.Unlock()
}

var c07StockLoggers = []string{"stock-silent", "stock-error", "stock-warn", "stock-warn", "stock-info", "default-warn", "default-warn", "default-silent"}

func c07StockLevel(name string) logger.LogLevel {
	switch {
	case strings.HasSuffix(name, "silent"):
		return logger.Silent
	case strings.HasSuffix(name, "error"):
		return logger.Error
	case strings.HasSuffix(name, "info"):
		return logger.Info
	}
	return logger.Warn
}

// c07StockLogger: gorm's own logger on a capturing writer (no colours, slow-SQL detection off)
func c07StockLogger(name string, seed int64) (logger.Interface, *c07CapWriter) {
	cw := &c07CapWriter{}
	return logger.New(cw, logger.Config{LogLevel: c07StockLevel(name), SlowThreshold: 0, IgnoreRecordNotFoundError: seed%3 == 0, Colorful: seed%5 == 0}), cw
}

var c07LogQuiet = []string{"bare", "session", "withctx", "bare"}
var c07LogLoud = []string{"debug", "debug", "logmode-info", "logmode-silent", "logmode-warn", "logmode-error", "debug-session", "default-logmode-info", "default-logmode-silent"}

func c07LogLevelOf(mode string) logger.LogLevel { return c07StockLevel(mode) }

func (w *c07RaceWorker) logDerive(h *gorm.DB, mode string) *gorm.DB {
	ctx := context.WithValue(context.Background(), c07CtxKey{}, w.g)
	switch {
	case mode == "session":
		return h.Session(&gorm.Session{})
	case mode == "withctx":
		return h.WithContext(ctx)
	case mode == "debug":
		return h.Debug()
	case mode == "debug-session":
		return h.Session(&gorm.Session{}).Debug()
	case strings.HasPrefix(mode, "default-logmode-"):
		return h.Session(&gorm.Session{Logger: logger.Default.LogMode(c07LogLevelOf(mode))})
	case strings.HasPrefix(mode, "logmode-"):
		return h.Session(&gorm.Session{Logger: h.Logger.LogMode(c07LogLevelOf(mode))})
	}
	return h
}

// opStockLog: one tagged operation on the goroutine's own rows of its plain model
func (w *c07RaceWorker) opStockLog(h *gorm.DB) string {
	tag := 5000000 + w.g*1000 + w.opIdx
	mode := c07LogQuiet[w.rng.Intn(len(c07LogQuiet))]
	if w.g%2 == 0 && w.rng.Intn(2) == 0 {
		mode = c07LogLoud[w.rng.Intn(len(c07LogLoud))]
	}
	d := w.logDerive(h, mode)
	lo, hi := w.base, w.base+9999
	tagged := func(x *gorm.DB) *gorm.DB { return x.Where("? = ?", tag, tag) }
	which := w.g % 3
	model := []interface{}{&C07Plain1{}, &C07Plain2{}, &C07Plain3{}}[which]
	k := w.rng.Intn(8)
	if w.ro && (k == 0 || k == 4 || k == 5) {
		k = 1 + w.rng.Intn(3)
	}
	w.kinds[fmt.Sprintf("log%d:%s", k, mode)] = true
	res := ""
	switch k {
	case 0:
		id := w.next() + 100
		name := fmt.Sprintf("t%d", tag)
		var err error
		switch which {
		case 0:
			err = d.Create(&C07Plain1{ID: id, Name: name, N: 1}).Error
		case 1:
			err = d.Create(&C07Plain2{ID: id, Name: name, N: 1}).Error
		default:
			err = d.Create(&C07Plain3{ID: id, Name: name, N: 1}).Error
		}
		res = "create " + c07ErrClass(err)
	case 1:
		var n int64
		err := tagged(d.Model(model)).Where("id BETWEEN ? AND ?", lo, hi).Count(&n).Error
		res = fmt.Sprintf("count %s %d", c07ErrClass(err), n)
	case 2:
		var ids []uint
		err := tagged(d.Model(model)).Where("id BETWEEN ? AND ?", lo, hi).Order("id").Pluck("id", &ids).Error
		res = fmt.Sprintf("pluck %s %v", c07ErrClass(err), ids)
	case 3: // not found: an ERROR-level line unless the logger ignores it
		var x C07Plain1
		err := tagged(d).Where("id = ?", lo+9000).First(&x).Error
		res = "first-missing " + c07ErrClass(err)
	case 4:
		tx := tagged(d.Model(model)).Where("id = ?", lo+1).Update("n", w.rng.Intn(50))
		res = fmt.Sprintf("update %s %d", c07ErrClass(tx.Error), tx.RowsAffected)
	case 5:
		tx := tagged(d.Model(model)).Where("id = ?", lo+2).UpdateColumn("name", fmt.Sprintf("n%d", w.rng.Intn(50)))
		res = fmt.Sprintf("updatecolumn %s %d", c07ErrClass(tx.Error), tx.RowsAffected)
	case 6: // a failing statement: an ERROR-level line
		var n int64
		err := tagged(d.Model(model)).Where("c07_no_such_column = ?", 1).Count(&n).Error
		res = "bad-column " + c07ErrClass(err)
	default:
		var xs []C07Plain3
		err := tagged(d.Table([]string{"rc_plain1", "rc_plain2", "rc_plain3"}[which])).Where("id BETWEEN ? AND ?", lo, hi).Order("id").Select("id", "name", "n").Find(&xs).Error
		res = fmt.Sprintf("find %s %d", c07ErrClass(err), len(xs))
	}
	return mode + " " + res
}

// c07StockLogRun: the family's own runner (see the header: the serial reference runs every goroutine on a handle of its own)
func c07StockLogRun(p c07RaceProg, serial bool) c07RaceRun {
	setup, _, sqlDB := OpenRec(&gorm.Config{NowFunc: fixedNowFunc})
	defer sqlDB.Close()
	conns := p.Conns
	if conns <= 0 {
		conns = 1
	}
	sqlDB.SetMaxOpenConns(conns)
	if err := setup.AutoMigrate(&C07Plain1{}, &C07Plain2{}, &C07Plain3{}); err != nil {
		panic(err)
	}
	for g := 0; g < p.G; g++ {
		base := uint(g+1) * 10000
		for i := uint(1); i <= 3; i++ {
			var err error
			switch g % 3 {
			case 0:
				err = setup.Create(&C07Plain1{ID: base + i, Name: "seed", N: int(i)}).Error
			case 1:
				err = setup.Create(&C07Plain2{ID: base + i, Name: "seed", N: int(i)}).Error
			default:
				err = setup.Create(&C07Plain3{ID: base + i, Name: "seed", N: int(i)}).Error
			}
			if err != nil {
				panic(err)
			}
		}
	}
	name := p.Logger
	if name == "" {
		name = "stock-warn"
	}
	oldDefault := logger.Default
	defer func() { logger.Default = oldDefault }()
	open := func() (*gorm.DB, *c07CapWriter) {
		l, cw := c07StockLogger(name, p.Seed)
		cfg := &gorm.Config{NowFunc: fixedNowFunc, Logger: l, PrepareStmt: p.Prepare}
		if strings.HasPrefix(name, "default-") { // the handle names no logger: it gets the process-wide logger.Default
			logger.Default = l
			cfg.Logger = nil
		}
		shared, err := gorm.Open(sqlite.Dialector{Conn: sqlDB}, cfg)
		if err != nil {
			panic(err)
		}
		for _, m := range []interface{}{&C07Plain1{}, &C07Plain2{}, &C07Plain3{}} {
			if !p.Cold {
				st := &gorm.Statement{DB: shared}
				_ = st.Parse(m)
			}
		}
		switch p.Handle {
		case "session":
			return shared.Session(&gorm.Session{}), cw
		case "ctx":
			return shared.WithContext(context.Background()), cw
		}
		return shared, cw
	}
	workers := make([]*c07RaceWorker, p.G)
	outs := make([][]string, p.G)
	for g := 0; g < p.G; g++ {
		workers[g] = &c07RaceWorker{g: g, base: uint(g+1) * 10000, rng: rand.New(rand.NewSource(p.Seed*131 + int64(g))), kinds: map[string]bool{}, ro: conns > 1}
	}
	body := func(g int, h *gorm.DB) {
		w := workers[g]
		for i := 0; i < p.Ops; i++ {
			w.opIdx = i
			s := c07Guard(func() string { return w.opStockLog(h) })
			if strings.Contains(s, " locked") {
				w.errs++
			}
			outs[g] = append(outs[g], s)
		}
	}
	res := c07RaceRun{kinds: map[string]bool{}, traces: map[string]int{}}
	c07TakePanics()
	lines := map[int][]string{}
	collect := func(cw *c07CapWriter) {
		cw.mu.Lock()
		for t, ks := range cw.lines {
			lines[t] = append(lines[t], ks...)
		}
		for _, o := range cw.other {
			res.traces["untagged "+o]++
		}
		cw.mu.Unlock()
	}
	if serial {
		for g := 0; g < p.G; g++ {
			h, cw := open()
			body(g, h)
			collect(cw)
		}
	} else {
		h, cw := open()
		var wg sync.WaitGroup
		start := make(chan struct{})
		for g := 0; g < p.G; g++ {
			wg.Add(1)
			go func(g int) {
				defer wg.Done()
				<-start
				body(g, h)
			}(g)
		}
		close(start)
		done := make(chan struct{})
		go func() { wg.Wait(); close(done) }()
		select {
		case <-done:
		case <-time.After(c07HangAfter):
			res.hung = true
			res.stacks = c07AllStacks()
			res.panics = c07TakePanics()
			return res
		}
		collect(cw)
	}
	res.panics = c07TakePanics()
	for g, w := range workers {
		for k := range w.kinds {
			res.kinds[k] = true
		}
		res.errs += w.errs
		for i := range outs[g] {
			ks := lines[5000000+g*1000+i]
			sort.Strings(ks)
			outs[g][i] += fmt.Sprintf(" || logged by the handle's logger: %v", ks)
		}
	}
	res.outs = outs
	res.dump = c07DumpTables(sqlDB, []string{"rc_plain1", "rc_plain2", "rc_plain3"})
	return res
}
