package main

// C01 e2e, round 3: the chain method Preload(query, args...) — a (text, args...) entry point whose arguments travel
// through Statement.Preloads into the inline conditions of the preload query (callbacks/preload.go:
// `tx.Where(clause.IN{…}).Find(dest, inlineConds...)`).
//
// Oracle (marker based, same three judgements as the other C01 e2e suites; c01Judge does (1) and (2) for EVERY
// statement the driver sees, (3) exactly for the main query):
//   (3') for each Preload(path, conds...) of the case: IF a later statement reads the table of the preloaded relation,
//        one such statement carries the generator's flattening of the conditions as a contiguous run among its bound
//        values (the other values of that statement are the foreign keys read from the database).
// Latitude: a preload that does not run (no parent row / no foreign key) is not judged; the position of the run among
// the key values is not prescribed.

import (
	"database/sql"
	"encoding/json"
	"fmt"
	"math/rand"
	"strings"

	"gorm.io/gorm"
	"gorm.io/gorm/clause"
)

type c01Preload struct {
	Path, Table, Desc string
	Args              []interface{}
	Bound             []interface{}
}

// c01PreloadConds: condition forms for the preloaded table (columns name, age, email, id exist on every C01J table)
func c01PreloadConds(rng *rand.Rand, m *markerGen, db *gorm.DB, table string) (desc string, args, bound []interface{}) {
	switch rng.Intn(13) {
	case 0:
		s := m.S()
		return `"name <> ?"`, []interface{}{"name <> ?", s}, []interface{}{s}
	case 1:
		i := m.I()
		return `"age<?" (no blank)`, []interface{}{"age<?", i}, []interface{}{i}
	case 2:
		a, b := m.I(), m.I()
		return `"age NOT IN (?)" []int`, []interface{}{"age NOT IN (?)", []int{a, b}}, []interface{}{a, b}
	case 3:
		a, b, s := m.I(), m.I(), m.S()
		return `"age NOT IN(?)AND(name<>?)" (no blank)`, []interface{}{"age NOT IN(?)AND(name<>?)", []int{a, b}, s}, []interface{}{a, b, s}
	case 4:
		s := m.S()
		return `"name <> @n" sql.Named`, []interface{}{"name <> @n", sql.Named("n", s)}, []interface{}{s}
	case 5:
		s, i := m.S(), m.I()
		return `"name<>@n OR age<@a" map`, []interface{}{"name<>@n OR age<@a", map[string]interface{}{"n": s, "a": i}}, []interface{}{s, i}
	case 6:
		s := m.S()
		return `func(db) Where("name <> ?")`, []interface{}{func(d *gorm.DB) *gorm.DB { return d.Where("name <> ?", s) }}, []interface{}{s}
	case 7:
		i, s := m.I(), m.S()
		return `func(db) Where("age<?").Not(name)`, []interface{}{func(d *gorm.DB) *gorm.DB { return d.Where("age<?", i).Not("name", s) }}, []interface{}{i, s}
	case 8:
		i := m.I()
		sub := db.Session(&gorm.Session{NewDB: true}).Table(table).Select("id").Where("age > ?", i)
		return `"id NOT IN (?)" sub-query`, []interface{}{"id NOT IN (?)", sub}, []interface{}{i}
	case 9:
		i := m.I()
		return `clause.Expr{"age < ?"}`, []interface{}{clause.Expr{SQL: "age < ?", Vars: []interface{}{i}}}, []interface{}{i}
	case 10:
		s := m.S()
		return `"email", s (column form)`, []interface{}{"email", s}, []interface{}{s}
	case 11:
		s, i := m.S(), m.I()
		return `"name <> ? OR age = ?"`, []interface{}{"name <> ? OR age = ?", s, i}, []interface{}{s, i}
	default:
		a, b := m.I(), m.I()
		return `"age < ?", gorm.Expr("? + ?")`, []interface{}{"age < ?", gorm.Expr("? + ?", a, b)}, []interface{}{a, b}
	}
}

var c01PreloadPaths = []struct{ path, table string }{
	{"Company", "c01_j_companies"}, {"Profile", "c01_j_profiles"}, {"Manager", "c01_j_users"},
	{"Manager.Company", "c01_j_companies"}, {"Manager.Profile", "c01_j_profiles"},
}

func c01GenPreloadCase(seed int64, db *gorm.DB) (*c01Case, []c01Preload) {
	rng := rand.New(rand.NewSource(seed))
	m := &markerGen{}
	c := &c01Case{M: m, ExtraOK: true}
	var steps []c01Step
	for i, n := 0, rng.Intn(3); i < n; i++ {
		switch rng.Intn(3) {
		case 0:
			v := m.I()
			steps = append(steps, c01Step{"Where(age < ?)", "where", []interface{}{v}, func(d *gorm.DB) *gorm.DB { return d.Where("c01_j_users.age < ?", v) }})
		case 1:
			s := m.S()
			steps = append(steps, c01Step{"Where(name<>?)", "where", []interface{}{s}, func(d *gorm.DB) *gorm.DB { return d.Where("c01_j_users.name<>?", s) }})
		default:
			a, b := m.I(), m.I()
			steps = append(steps, c01Step{"Not(age IN (?))", "where", []interface{}{a, b}, func(d *gorm.DB) *gorm.DB { return d.Not("c01_j_users.age IN (?)", []int{a, b}) }})
		}
	}
	var pls []c01Preload
	used := map[string]bool{}
	for i, n := 0, 1+rng.Intn(2); i < n; i++ {
		p := c01PreloadPaths[rng.Intn(len(c01PreloadPaths))]
		if used[p.path] {
			continue
		}
		used[p.path] = true
		desc, args, bound := c01PreloadConds(rng, m, db, p.table)
		pls = append(pls, c01Preload{p.path, p.table, desc, args, bound})
		c01H("e2e-preload.form", desc)
		c01H("e2e-preload.path", p.path)
	}
	fin := []string{"Find", "First", "Take", "Last", "FindSession"}[rng.Intn(5)]
	c.Fin = "Preload" + fin
	c.Desc = c01Descs(steps)
	for _, p := range pls {
		c.Desc = append(c.Desc, fmt.Sprintf("Preload(%s, %s)", p.Path, p.Desc))
	}
	c.Expect = []c01Expect{{"SELECT", c01NormAll(c01ChainArgs(steps))}}
	c.Run = func(d *gorm.DB) *gorm.DB {
		tx := c01Apply(d, steps).Model(&C01JUser{})
		for _, p := range pls {
			tx = tx.Preload(p.Path, p.Args...)
		}
		switch fin {
		case "Find":
			var us []C01JUser
			return tx.Find(&us)
		case "FindSession": // the handle is kept, marked for cloning and used afterwards
			var us []C01JUser
			return tx.Session(&gorm.Session{}).Where("c01_j_users.id > 0").Find(&us)
		case "First":
			var u C01JUser
			return tx.Where("c01_j_users.id > 1").First(&u)
		case "Last":
			var u C01JUser
			return tx.Last(&u)
		default:
			var u C01JUser
			return tx.Where("c01_j_users.id > 2").Take(&u)
		}
	}
	return c, pls
}

// c01HasRun: does `args` contain `run` as a contiguous sub-list?
func c01HasRun(args, run []string) bool {
	if len(run) == 0 {
		return true
	}
	for i := 0; i+len(run) <= len(args); i++ {
		ok := true
		for k := range run {
			if args[i+k] != run[k] {
				ok = false
				break
			}
		}
		if ok {
			return true
		}
	}
	return false
}

func c01JudgePreload(db *gorm.DB, rec *Recorder, dialect string, c *c01Case, pls []c01Preload) c01Verdict {
	v := c01Judge(db, rec, dialect, c)
	if v.Bad != "" || len(v.Stmts) < 1 {
		return v
	}
	for _, p := range pls {
		want := c01NormAll(p.Bound)
		reads, found := 0, false
		for _, st := range v.Stmts[1:] {
			if !strings.Contains(st[0], "FROM `"+p.Table+"`") {
				continue
			}
			reads++
			if c01HasRun(st[1:], want) {
				found = true
			}
		}
		if reads > 0 && !found {
			v.Bad = fmt.Sprintf("no statement reading %s carries the bound values of Preload(%s, %s)", p.Table, p.Path, p.Desc)
		}
	}
	return v
}

func init() {
	run := func(r *Result, dialect string, seeds []int64) {
		db, rec := c01OpenSqlite(dialect)
		c01Hist = func(h, b string) { r.H(h, b) }
		defer func() { c01Hist = nil }()
		for i, seed := range seeds {
			if expired() {
				break
			}
			c, pls := c01GenPreloadCase(seed, db)
			v := c01JudgePreload(db, rec, dialect, c, pls)
			in := map[string]interface{}{"dialect": dialect, "case_seed": seed, "finisher": c.Fin, "chain": c.Desc}
			r.Case("e2e-preload", dialect+"|"+c.Fin+"|"+strings.Join(c.Desc, ";"), true)
			r.H("e2e-preload.finisher", c.Fin)
			r.H("e2e-preload.statements", fmt.Sprint(len(v.Stmts)))
			if v.Err != "" {
				r.H("e2e-preload.error", c01Trunc(v.Err, 40))
			}
			if i%301 == 0 {
				r.Sample(map[string]interface{}{"suite": "e2e-preload", "input": in, "statements": v.Stmts})
			}
			if v.Bad != "" {
				r.Violate(Violation{Kind: "e2e", Suite: "e2e-preload", Input: in, Observed: map[string]interface{}{"statements": v.Stmts, "err": v.Err},
					Expected: map[string]interface{}{"verdict": v.Bad, "expected": c.Expect}})
			}
		}
	}
	register("C01", func(r *Result, rng *rand.Rand, tier string) {
		n := 300
		if tier == "thorough" {
			n = 8000
		} else if tier == "search" {
			n = 2000
		}
		for _, dialect := range []string{"qmark", "dollar"} {
			seeds := make([]int64, n)
			for i := range seeds {
				seeds[i] = rng.Int63()
			}
			run(r, dialect, seeds)
		}
	})
	replayers["C01/e2e-preload"] = func(r *Result, input json.RawMessage) {
		var in struct {
			Dialect string `json:"dialect"`
			Seed    int64  `json:"case_seed"`
		}
		if err := json.Unmarshal(input, &in); err != nil {
			r.Note("bad replay input: %v", err)
			return
		}
		run(r, in.Dialect, []int64{in.Seed})
	}
}
