package main

// C06, third family of suites ("arg", "argtie"): a reusable handle handed to ANOTHER chain as an ARGUMENT.
//
// A history builds a small tree of reusable handles in generated STATES (Model set / unset / Table only, soft-delete
// model, WHERE shapes: lone Or, Or + And, leading Or, Not, map / struct / IN / raw conditions with AND inside,
// pending Scopes (adding Where / Or / Select), Select / Omit, Limit / Offset / Order, raw Joins, Group / Having,
// Distinct, Unscoped, hint-decorated clauses, Clauses(clause.Where{…}); derived by Session{} / WithContext / Debug /
// Session{SkipHooks} / Session{QueryFields} / Session{DryRun}), then hands them to OTHER chains at EVERY API position
// that accepts a *gorm.DB (c06aPositions: Joins / InnerJoins(rel, h); Where / Or / Not / Having("… (?)", h);
// Select("(?) as x", h); Table("(?) as t", h); Order(expr with h); Where(h) / Or(h) / Not(h) / Having(h);
// clause.Expr{Vars: h}; gorm.Expr("(?)", h); Clauses(clause.Where{…h…}); Scopes returning chains built with h;
// sql.Named; []interface{}{h}; map{col: h}; Update(col, h) / Updates(map{col: h}) / Create(map{col: h});
// Raw / Exec("… ?", h); inline conditions of Find / First / Delete; Preload(rel, h); Association(rel).Find(&x, h)),
// the consuming chain being EXECUTED, DryRun-built or ABANDONED.
//
// Oracles (suite "arg", no model involved):
//   (1) replay alone: every probe chain derived from the handles AFTER the argument uses (DryRun SQL + Vars, real
//       rows, error) equals the same probe in a fresh gorm.Open over the same data in which the uses never happened;
//   (2) a deep reflection snapshot of every handle's Statement (Clauses incl. every expression slice element by
//       element, scopes, Joins incl. ON expressions, Selects, Omits, Vars, SQL, Preloads, Table, Model, flags) taken
//       before the uses equals the one taken after them.  A snapshot difference that no generated probe shows is
//       reported as a broken TIE (the Lean theorem "an argument use never writes the argument's statement" no longer
//       describes the code), not as an e2e violation.
// Latitudes: none for (1) — both runs execute the same probes on equal data.  (2) ignores Statement.Context /
// ConnPool / DB (identity of per-run objects) and compares within ONE run, so addresses are stable.
// Tie (suite "argtie"): per argument use, the parts of the real argument's statement that changed (where / scopes /
// selects / joins / other) vs what the Lean model (Model/ArgUse.lean, c06.arguse) says for the regenerated
// discipline of that site.

import (
	"context"
	"database/sql"
	"encoding/json"
	"fmt"
	"math/rand"
	"reflect"
	"sort"
	"strings"

	"gorm.io/driver/sqlite"
	"gorm.io/gorm"
	"gorm.io/gorm/clause"
	"gorm.io/gorm/logger"
)

// ---- models -------------------------------------------------------------------------------------------

type C06AUser struct {
	ID      uint `gorm:"primaryKey"`
	Name    string
	Age     int
	Account C06AAcct  `gorm:"foreignKey:UserID"`
	Pets    []C06APet `gorm:"foreignKey:UserID"`
}

func (C06AUser) TableName() string { return "c06a_users" }

// soft delete
type C06AAcct struct {
	ID        uint `gorm:"primaryKey"`
	UserID    uint
	Number    string
	DeletedAt gorm.DeletedAt
}

func (C06AAcct) TableName() string { return "c06a_accts" }

type C06APet struct {
	ID     uint `gorm:"primaryKey"`
	UserID uint
	Name   string
	Owner  *C06AUser `gorm:"foreignKey:UserID"`
}

func (C06APet) TableName() string { return "c06a_pets" }

var c06aTables = []string{"c06a_users", "c06a_accts", "c06a_pets"}

type c06aWorld struct {
	sqlDB *sql.DB
	rec   *Recorder
}

func c06aOpenWorld() *c06aWorld {
	db, rec, sqlDB := OpenRec(&gorm.Config{NowFunc: fixedNowFunc})
	if err := db.AutoMigrate(&C06AUser{}, &C06AAcct{}, &C06APet{}); err != nil {
		panic(err)
	}
	for i := 1; i <= 5; i++ {
		db.Create(&C06AUser{ID: uint(i), Name: fmt.Sprint("u", i), Age: 20 + i})
	}
	for i := 1; i <= 7; i++ {
		a := C06AAcct{ID: uint(i), UserID: uint(1 + i%5), Number: fmt.Sprint("n", i)}
		if i%3 == 0 {
			a.DeletedAt = gorm.DeletedAt{Time: fixedNow, Valid: true}
		}
		db.Create(&a)
		db.Create(&C06APet{ID: uint(i), UserID: uint(1 + (i*2)%5), Name: fmt.Sprint("p", i)})
	}
	for _, t := range c06aTables {
		if _, err := sqlDB.Exec("CREATE TABLE " + t + "_bak AS SELECT * FROM " + t); err != nil {
			panic(err)
		}
	}
	rec.Off = true
	return &c06aWorld{sqlDB: sqlDB, rec: rec}
}

func (w *c06aWorld) close() { w.sqlDB.Close() }

func (w *c06aWorld) restore() {
	for _, t := range c06aTables {
		w.sqlDB.Exec("DELETE FROM " + t)
		if _, err := w.sqlDB.Exec("INSERT INTO " + t + " SELECT * FROM " + t + "_bak"); err != nil {
			panic(err)
		}
	}
}

func (w *c06aWorld) open(cfg int) *gorm.DB {
	w.restore()
	db, err := gorm.Open(sqlite.Dialector{Conn: w.sqlDB}, &gorm.Config{Logger: logger.Discard, NowFunc: fixedNowFunc,
		SkipDefaultTransaction: cfg&1 != 0, QueryFields: cfg&2 != 0, PropagateUnscoped: cfg&4 != 0})
	if err != nil {
		panic(err)
	}
	return db
}

// ---- history language ---------------------------------------------------------------------------------

type c06aOp struct {
	K string `json:"k"`
	N int    `json:"n,omitempty"`
}

type c06aHandle struct {
	Src    int      `json:"src"` // -1 = the root handle of gorm.Open, else an earlier handle
	Ops    []c06aOp `json:"ops"`
	Derive string   `json:"derive"`
}

type c06aUse struct {
	Pos  string `json:"pos"`
	Arg  int    `json:"arg"`
	Mode int    `json:"mode"` // 0 executed, 1 DryRun-built, 2 abandoned (chain positions) / DryRun (finisher positions)
	N    int    `json:"n,omitempty"`
}

type c06aProbe struct {
	H int `json:"h"`
	K int `json:"k"`
}

type c06aHist struct {
	Cfg     int          `json:"cfg"`
	Handles []c06aHandle `json:"handles"`
	Pre     []c06aProbe  `json:"pre"`
	Uses    []c06aUse    `json:"uses"`
	Probes  []c06aProbe  `json:"probes"`
}

var c06aModelNames = []string{"acct", "pet", "user"}

func (o c06aOp) String() string {
	switch o.K {
	case "model":
		return "Model(&" + c06aModelNames[o.N%3] + "{})"
	case "table":
		return "Table(" + c06aTables[o.N%3] + ")"
	case "where":
		return fmt.Sprintf("Where[form %d](%d)", o.N%6, o.N/6)
	}
	return fmt.Sprintf("%s(%d)", o.K, o.N)
}

func (h c06aHist) Desc() string {
	var p []string
	for i, x := range h.Handles {
		var ops []string
		for _, o := range x.Ops {
			ops = append(ops, o.String())
		}
		src := "root"
		if x.Src >= 0 {
			src = fmt.Sprint("h", x.Src)
		}
		p = append(p, fmt.Sprintf("h%d := %s.%s.%s()", i, src, strings.Join(ops, "."), x.Derive))
	}
	for _, pr := range h.Pre {
		p = append(p, fmt.Sprintf("probe%d(h%d)", pr.K, pr.H))
	}
	for _, u := range h.Uses {
		p = append(p, fmt.Sprintf("USE %s(h%d) %s", u.Pos, u.Arg, []string{"executed", "dry-run", "abandoned"}[u.Mode%3]))
	}
	for _, pr := range h.Probes {
		p = append(p, fmt.Sprintf("probe%d(h%d)", pr.K, pr.H))
	}
	return strings.Join(p, "; ")
}

// ---- building a handle in a generated state -----------------------------------------------------------

// the table a handle's statement works on ("" = none): bookkeeping for raw joins and probes
func c06aTableOf(h c06aHist, i int) string {
	t := ""
	if h.Handles[i].Src >= 0 {
		t = c06aTableOf(h, h.Handles[i].Src)
	}
	for _, o := range h.Handles[i].Ops {
		switch o.K {
		case "model":
			t = []string{"c06a_accts", "c06a_pets", "c06a_users"}[o.N%3]
		case "table":
			t = c06aTables[o.N%3]
		}
	}
	return t
}

func c06aKeyCol(table string) string {
	if table == "c06a_users" {
		return "age"
	}
	return "user_id"
}

func c06aApply(t *gorm.DB, o c06aOp, table string) *gorm.DB {
	col := c06aKeyCol(table)
	v := 1 + o.N%5
	switch o.K {
	case "model":
		return t.Model([]interface{}{&C06AAcct{}, &C06APet{}, &C06AUser{}}[o.N%3])
	case "table":
		return t.Table(c06aTables[o.N%3])
	case "where":
		x := 1 + (o.N/6)%5
		switch o.N % 6 {
		case 0:
			return t.Where(col+" = ?", x)
		case 1:
			return t.Where(col+" IN ?", []int{x, x + 1})
		case 2:
			return t.Where(map[string]interface{}{col: x})
		case 3:
			return t.Where(col+" >= ? AND id < ?", x, 100)
		case 4:
			return t.Where(clause.Gte{Column: "id", Value: x})
		default:
			return t.Where(col+" <> ? OR id = ?", x, x)
		}
	case "or":
		return t.Or(col+" = ?", v)
	case "or2":
		return t.Or(col+" = ? AND id > ?", v, 0)
	case "ormap":
		return t.Or(map[string]interface{}{"id": v})
	case "not":
		return t.Not(col+" = ?", v)
	case "notmap":
		return t.Not(map[string]interface{}{"id": []int{v, v + 1}})
	case "scope":
		return t.Scopes(func(d *gorm.DB) *gorm.DB { return d.Where(col+" >= ?", v) })
	case "scopeor":
		return t.Scopes(func(d *gorm.DB) *gorm.DB { return d.Or("id = ?", v) })
	case "scopesel":
		return t.Scopes(func(d *gorm.DB) *gorm.DB { return d.Select(col) })
	case "scope2":
		return t.Scopes(func(d *gorm.DB) *gorm.DB { return d.Where("id > ?", 0) }, func(d *gorm.DB) *gorm.DB { return d.Not("id = ?", 90+v) })
	case "select":
		switch o.N % 4 {
		case 0:
			return t.Select(col)
		case 1:
			return t.Select("id", col)
		case 2:
			return t.Select([]string{col})
		default:
			return t.Select("max(" + col + ")")
		}
	case "omit":
		return t.Omit("id")
	case "limit":
		return t.Limit(1 + o.N%3)
	case "offset":
		return t.Offset(o.N % 2)
	case "order":
		return t.Order([]string{"id desc", "id", col + " desc, id"}[o.N%3])
	case "joins":
		if table == "" || table == "c06a_users" {
			return t.Where("id > ?", 0)
		}
		return t.Joins("JOIN c06a_users u ON u.id = " + table + ".user_id AND u.age > ?", 20)
	case "unscoped":
		return t.Unscoped()
	case "hint":
		return t.Clauses(c06xHint{Key: []string{"SELECT", "FROM", "WHERE"}[o.N%3], Pos: o.N % 3, Text: fmt.Sprint("hint", o.N)})
	case "cwhere":
		return t.Clauses(clause.Where{Exprs: []clause.Expression{clause.Expr{SQL: "id > ?", Vars: []interface{}{0}}}})
	case "cor":
		return t.Clauses(clause.Where{Exprs: []clause.Expression{clause.Or(clause.Expr{SQL: "id = ?", Vars: []interface{}{v}})}})
	case "group":
		return t.Group(col)
	case "having":
		return t.Group(col).Having("count(*) > ?", 0)
	case "distinct":
		return t.Distinct()
	}
	panic("c06a: unknown state op " + o.K)
}

type c06aCtxKey struct{}

func c06aDerive(t *gorm.DB, d string, i int) *gorm.DB {
	switch d {
	case "session":
		return t.Session(&gorm.Session{})
	case "ctx":
		return t.WithContext(context.WithValue(context.Background(), c06aCtxKey{}, i))
	case "debug":
		return t.Debug()
	case "skiphooks":
		return t.Session(&gorm.Session{SkipHooks: true})
	case "qf":
		return t.Session(&gorm.Session{QueryFields: true})
	case "dry":
		return t.Session(&gorm.Session{DryRun: true})
	case "sessctx":
		return t.Session(&gorm.Session{Context: context.WithValue(context.Background(), c06aCtxKey{}, i), SkipDefaultTransaction: true})
	}
	panic("c06a: unknown derivation " + d)
}

// ---- the positions that accept a *gorm.DB -----------------------------------------------------------------

type c06aPosInfo struct {
	site     string // model site: joins | addvar | group
	finisher bool   // the position is a finisher itself (executed or DryRun, never abandoned)
	writes   bool
}

var c06aPositions = map[string]c06aPosInfo{
	"joins": {site: "joins"}, "innerjoins": {site: "joins"}, "joinsowner": {site: "joins"},
	"wherein": {site: "addvar"}, "orin": {site: "addvar"}, "notin": {site: "addvar"}, "havingin": {site: "addvar"},
	"selectsub": {site: "addvar"}, "tablesub": {site: "addvar"}, "ordersub": {site: "addvar"}, "exprvars": {site: "addvar"},
	"gormexpr": {site: "addvar"}, "clauseswhere": {site: "addvar"}, "scopein": {site: "addvar"}, "named": {site: "addvar"},
	"slicein": {site: "addvar"}, "mapeq": {site: "addvar"}, "eqcol": {site: "addvar"}, "joinraw": {site: "joins"},
	"whereg": {site: "group"}, "org": {site: "group"}, "notg": {site: "group"}, "havingg": {site: "group"}, "scopeg": {site: "group"},
	"update": {site: "addvar", finisher: true, writes: true}, "updates": {site: "addvar", finisher: true, writes: true},
	"updatecol": {site: "addvar", finisher: true, writes: true},
	"create": {site: "addvar", finisher: true, writes: true}, "raw": {site: "addvar", finisher: true},
	"exec": {site: "addvar", finisher: true, writes: true}, "findinline": {site: "group", finisher: true},
	"firstinline": {site: "group", finisher: true}, "deleteinline": {site: "group", finisher: true, writes: true},
	"preload": {site: "group", finisher: true}, "preloadacct": {site: "group", finisher: true},
	"assocfind": {site: "group", finisher: true}, "pluckin": {site: "addvar", finisher: true},
	"countin": {site: "addvar", finisher: true}, "takeinline": {site: "group", finisher: true},
}

var c06aPosNames = func() []string {
	var ns []string
	for n := range c06aPositions {
		ns = append(ns, n)
	}
	sort.Strings(ns)
	return ns
}()

type c06aRows = []map[string]interface{}

// c06aUseArg hands handle g to another chain started from root at position u.Pos
func c06aUseArg(root *gorm.DB, g *gorm.DB, u c06aUse) (note string) {
	defer func() {
		if p := recover(); p != nil {
			note = "panic:" + c06HexRe.ReplaceAllString(fmt.Sprint(p), "PTR")
		}
	}()
	info := c06aPositions[u.Pos]
	base := root
	if u.Mode != 0 && (info.finisher || u.Mode == 1) {
		base = root.Session(&gorm.Session{DryRun: true})
	}
	users := func() *gorm.DB { return base.Model(&C06AUser{}) }
	var c *gorm.DB
	switch u.Pos {
	case "joins":
		c = users().Joins("Account", g)
	case "innerjoins":
		c = users().InnerJoins("Account", g)
	case "joinsowner":
		c = base.Model(&C06APet{}).Joins("Owner", g)
	case "wherein":
		c = users().Where("id IN (?)", g)
	case "orin":
		c = users().Where("id > ?", 3).Or("id IN (?)", g)
	case "notin":
		c = users().Not("id IN (?)", g)
	case "havingin":
		c = users().Select("age, count(*) as n").Group("age").Having("count(*) >= (?)", g)
	case "selectsub":
		c = users().Select("id, (?) as x", g)
	case "tablesub":
		c = base.Table("(?) as t", g)
	case "ordersub":
		c = users().Clauses(clause.OrderBy{Expression: clause.Expr{SQL: "(?) DESC, id", Vars: []interface{}{g}}})
	case "exprvars":
		c = users().Where(clause.Expr{SQL: "id IN (?)", Vars: []interface{}{g}})
	case "gormexpr":
		c = users().Where("id IN ?", gorm.Expr("(?)", g))
	case "clauseswhere":
		c = users().Clauses(clause.Where{Exprs: []clause.Expression{gorm.Expr("id IN (?)", g)}})
	case "scopein":
		c = users().Scopes(func(d *gorm.DB) *gorm.DB { return d.Where("id IN (?)", g) })
	case "named":
		c = users().Where("id IN (@sub) OR age = @a", sql.Named("sub", g), sql.Named("a", 0))
	case "slicein":
		c = users().Where("id IN ?", []interface{}{g})
	case "mapeq":
		c = users().Where(map[string]interface{}{"id": g})
	case "eqcol":
		c = users().Where(clause.Eq{Column: "id", Value: g})
	case "joinraw":
		c = users().Joins("JOIN (?) AS s ON s.user_id = c06a_users.id", g)
	case "whereg":
		c = users().Where(g)
	case "org":
		c = users().Where("id > ?", 3).Or(g)
	case "notg":
		c = users().Not(g)
	case "havingg":
		c = users().Select("age, count(*) as n").Group("age").Having(g)
	case "scopeg":
		c = users().Scopes(func(d *gorm.DB) *gorm.DB { return d.Where(g) })
	case "update":
		c = users().Where("id = ?", 1).Update("age", g)
	case "updatecol":
		c = users().Where("id = ?", 1).UpdateColumn("age", g)
	case "updates":
		c = users().Where("id = ?", 2).Updates(map[string]interface{}{"age": g, "name": "z"})
	case "create":
		c = users().Create(map[string]interface{}{"name": "new", "age": g})
	case "raw":
		var ids []int
		c = base.Raw("SELECT id FROM c06a_users WHERE id IN (?)", g).Scan(&ids)
	case "exec":
		c = base.Exec("UPDATE c06a_users SET age = age + 0 WHERE id IN (?)", g)
	case "findinline":
		var us []C06AUser
		c = base.Find(&us, g)
	case "firstinline":
		var us C06AUser
		c = base.First(&us, g)
	case "takeinline":
		var us C06AUser
		c = base.Take(&us, "id IN (?)", g)
	case "deleteinline":
		c = base.Delete(&C06APet{}, g)
	case "preload":
		var us []C06AUser
		c = base.Preload("Pets", g).Find(&us)
	case "preloadacct":
		var us []C06AUser
		c = base.Preload("Account", g).Find(&us)
	case "assocfind":
		var ps []C06APet
		_ = base.Model(&C06AUser{ID: 1}).Association("Pets").Find(&ps, g)
		return "assoc"
	case "pluckin":
		var ids []int
		c = users().Where("id IN (?)", g).Pluck("id", &ids)
	case "countin":
		var n int64
		c = users().Where("id IN (?)", g).Count(&n)
	default:
		panic("c06a: unknown position " + u.Pos)
	}
	if !info.finisher && u.Mode != 2 {
		var rows c06aRows
		c = c.Find(&rows)
	}
	if c != nil && c.Error != nil {
		return "err"
	}
	return "ok"
}

// ---- probes: chains derived from a handle -------------------------------------------------------------------

const c06aProbeKinds = 10

func c06aErr(err error) string {
	if err == nil {
		return ""
	}
	e := c06HexRe.ReplaceAllString(err.Error(), "PTR")
	if len(e) > 80 {
		e = e[:80]
	}
	return e
}

func c06aCanonRows(rows c06aRows) string {
	var rs []string
	for _, r := range rows {
		b, _ := json.Marshal(r)
		rs = append(rs, string(b))
	}
	sort.Strings(rs)
	return strings.Join(rs, "\n")
}

// one probe on handle x: its DryRun rendering (SQL + Vars) and its real outcome
func c06aProbeRun(x *gorm.DB, table string, k int) (obs string) {
	defer func() {
		if p := recover(); p != nil {
			obs = "panic:" + c06HexRe.ReplaceAllString(fmt.Sprint(p), "PTR")
		}
	}()
	chain := func(b *gorm.DB) (*gorm.DB, string) {
		if table == "" {
			b = b.Table("c06a_accts")
		}
		var rows c06aRows
		switch k {
		case 0:
			t := b.Find(&rows)
			return t, c06aCanonRows(rows)
		case 1:
			t := b.Where("id > ?", 0).Find(&rows)
			return t, c06aCanonRows(rows)
		case 2:
			t := b.Unscoped().Where("id >= ?", 0).Find(&rows)
			return t, c06aCanonRows(rows)
		case 3:
			t := b.Or("id = ?", 1).Find(&rows)
			return t, c06aCanonRows(rows)
		case 4:
			t := b.Not("id = ?", 2).Find(&rows)
			return t, c06aCanonRows(rows)
		case 5:
			var n int64
			t := b.Count(&n)
			return t, fmt.Sprint(n)
		case 6:
			var ids []int
			t := b.Where("id < ?", 100).Pluck("id", &ids)
			sort.Ints(ids)
			return t, fmt.Sprint(ids)
		case 7:
			t := b.Session(&gorm.Session{DryRun: true}).Where("id > ?", 0).Delete(&C06APet{})
			return t, ""
		case 8:
			t := b.Session(&gorm.Session{DryRun: true}).Where("id > ?", 0).Update("user_id", 1)
			return t, ""
		default:
			t := b.Where("id > ?", 0).Or("id = ?", 3).Limit(5).Find(&rows)
			return t, c06aCanonRows(rows)
		}
	}
	d, _ := chain(x.Session(&gorm.Session{DryRun: true}))
	obs = "sql=" + d.Statement.SQL.String() + " vars=" + strings.Join(normArgs(d.Statement.Vars), ",") + " err=" + c06aErr(d.Error)
	t, res := chain(x)
	return obs + " | rows=" + res + " err=" + c06aErr(t.Error) + fmt.Sprint(" n=", t.RowsAffected)
}

// ---- deep snapshot of a handle's statement -----------------------------------------------------------------

var c06aOpaque = map[string]bool{"*gorm.DB": true, "*gorm.Statement": true, "*schema.Schema": true, "*schema.Field": true,
	"*gorm.Config": true, "*sync.Map": true, "*schema.Relationship": true}

func c06aDeep(b *strings.Builder, v reflect.Value, depth int) {
	if !v.IsValid() {
		b.WriteString("nil")
		return
	}
	if depth <= 0 {
		b.WriteString("…")
		return
	}
	switch v.Kind() {
	case reflect.Ptr:
		if v.IsNil() {
			b.WriteString("nil")
			return
		}
		if c06aOpaque[v.Type().String()] {
			fmt.Fprintf(b, "%s@%x", v.Type(), v.Pointer())
			return
		}
		b.WriteString("&")
		c06aDeep(b, v.Elem(), depth-1)
	case reflect.Interface:
		if v.IsNil() {
			b.WriteString("nil")
			return
		}
		c06aDeep(b, v.Elem(), depth)
	case reflect.Struct:
		if v.Type().String() == "strings.Builder" || v.Type().String() == "sync.Map" || v.Type().String() == "time.Time" {
			fmt.Fprintf(b, "%s", v.Type())
			if v.Type().String() == "time.Time" && v.CanInterface() {
				fmt.Fprintf(b, "(%v)", v.Interface())
			}
			return
		}
		b.WriteString(v.Type().String() + "{")
		for i := 0; i < v.NumField(); i++ {
			if i > 0 {
				b.WriteString(",")
			}
			b.WriteString(v.Type().Field(i).Name + ":")
			c06aDeep(b, v.Field(i), depth-1)
		}
		b.WriteString("}")
	case reflect.Slice, reflect.Array:
		if v.Kind() == reflect.Slice && v.IsNil() {
			b.WriteString("nil[]")
			return
		}
		fmt.Fprintf(b, "[%d:", v.Len())
		for i := 0; i < v.Len(); i++ {
			if i > 0 {
				b.WriteString(",")
			}
			c06aDeep(b, v.Index(i), depth-1)
		}
		b.WriteString("]")
	case reflect.Map:
		if v.IsNil() {
			b.WriteString("nilmap")
			return
		}
		var es []string
		it := v.MapRange()
		for it.Next() {
			var kb, vb strings.Builder
			c06aDeep(&kb, it.Key(), depth-1)
			c06aDeep(&vb, it.Value(), depth-1)
			es = append(es, kb.String()+"="+vb.String())
		}
		sort.Strings(es)
		b.WriteString("map{" + strings.Join(es, ";") + "}")
	case reflect.Func, reflect.Chan, reflect.UnsafePointer:
		if v.IsNil() {
			b.WriteString("nil")
			return
		}
		fmt.Fprintf(b, "%s@%x", v.Kind(), v.Pointer())
	case reflect.String:
		fmt.Fprintf(b, "%q", v.String())
	case reflect.Bool:
		fmt.Fprint(b, v.Bool())
	case reflect.Int, reflect.Int8, reflect.Int16, reflect.Int32, reflect.Int64:
		fmt.Fprint(b, v.Int())
	case reflect.Uint, reflect.Uint8, reflect.Uint16, reflect.Uint32, reflect.Uint64, reflect.Uintptr:
		fmt.Fprint(b, v.Uint())
	case reflect.Float32, reflect.Float64:
		fmt.Fprint(b, v.Float())
	default:
		b.WriteString(v.Kind().String())
	}
}

func c06aDeepStr(v interface{}) string {
	var b strings.Builder
	c06aDeep(&b, reflect.ValueOf(v), 12)
	return b.String()
}

// c06aSnapshot: field name → deep rendering
func c06aSnapshot(h *gorm.DB) map[string]string {
	st := h.Statement
	m := map[string]string{}
	for k, c := range st.Clauses {
		name := "clause:" + k
		if k == "WHERE" {
			name = "where"
		}
		m[name] = c06aDeepStr(c)
	}
	sv := reflect.ValueOf(st).Elem()
	var b strings.Builder
	c06aDeep(&b, sv.FieldByName("scopes"), 4)
	m["scopes"] = b.String()
	b.Reset()
	c06aDeep(&b, sv.FieldByName("Joins"), 12)
	m["joins"] = b.String()
	m["selects"] = c06aDeepStr(st.Selects)
	m["omits"] = c06aDeepStr(st.Omits)
	m["vars"] = c06aDeepStr(st.Vars)
	m["sql"] = st.SQL.String()
	m["preloads"] = c06aDeepStr(st.Preloads)
	m["table"] = st.Table
	m["tableexpr"] = c06aDeepStr(st.TableExpr)
	m["model"] = fmt.Sprintf("%T@%p", st.Model, st.Model)
	m["dest"] = fmt.Sprintf("%T@%p", st.Dest, st.Dest)
	m["flags"] = fmt.Sprint(st.Unscoped, st.Distinct, st.SkipHooks, st.RaiseErrorOnNotFound, st.ColumnMapping)
	m["schema"] = fmt.Sprintf("%p", st.Schema)
	m["settings"] = c06xSettings(st)
	m["error"] = c06aErr(h.Error) + fmt.Sprint(" rows=", h.RowsAffected)
	m["clone"] = fmt.Sprint(reflect.ValueOf(h).Elem().FieldByName("clone").Int())
	m["stmtptr"] = fmt.Sprintf("%p", st)
	return m
}

func c06aSnapDiff(a, b map[string]string) []string {
	var d []string
	for k, v := range a {
		if b[k] != v {
			d = append(d, k)
		}
	}
	for k := range b {
		if _, ok := a[k]; !ok {
			d = append(d, k)
		}
	}
	sort.Strings(d)
	return d
}

// ---- running a history ---------------------------------------------------------------------------------

type c06aUseFact struct {
	Use     int      `json:"use"`
	Changed []string `json:"changed"` // fields of the ARGUMENT handle's statement that differ after this use
	Others  []string `json:"others"`  // "h<i>.<field>" of the other handles
	Note    string   `json:"note"`
	Nsc     int      `json:"nsc"` // pending scopes of the argument right before the use (from the real statement)
}

type c06aRun struct {
	Pre, Probes []string
	Facts       []c06aUseFact
	SnapDiff    []string // "h<i>.<field>": snapshot before the uses vs after the uses
	EndDiff     []string // … vs after the probes
	Detail      string
}

func c06aExec(w *c06aWorld, h c06aHist, withUses bool) (run c06aRun) {
	root := w.open(h.Cfg)
	hs := make([]*gorm.DB, len(h.Handles))
	tables := make([]string, len(h.Handles))
	for i, x := range h.Handles {
		t := root
		if x.Src >= 0 && x.Src < i {
			t = hs[x.Src]
		}
		tables[i] = c06aTableOf(h, i)
		tb := ""
		if x.Src >= 0 && x.Src < i {
			tb = tables[x.Src]
		}
		for _, o := range x.Ops {
			switch o.K {
			case "model":
				tb = []string{"c06a_accts", "c06a_pets", "c06a_users"}[o.N%3]
			case "table":
				tb = c06aTables[o.N%3]
			}
			t = c06aApply(t, o, tb)
		}
		hs[i] = c06aDerive(t, x.Derive, i)
	}
	probe := func(ps []c06aProbe) []string {
		var out []string
		for _, p := range ps {
			if p.H >= len(hs) {
				out = append(out, "-")
				continue
			}
			out = append(out, c06aProbeRun(hs[p.H], tables[p.H], p.K))
		}
		return out
	}
	run.Pre = probe(h.Pre)
	snapAll := func() []map[string]string {
		s := make([]map[string]string, len(hs))
		for i, x := range hs {
			s[i] = c06aSnapshot(x)
		}
		return s
	}
	before := snapAll()
	if withUses {
		cur := before
		for ui, u := range h.Uses {
			if u.Arg >= len(hs) {
				continue
			}
			note := c06aUseArg(root, hs[u.Arg], u)
			if c06aPositions[u.Pos].writes && u.Mode == 0 {
				w.restore()
			}
			after := snapAll()
			f := c06aUseFact{Use: ui, Note: note, Changed: c06aSnapDiff(cur[u.Arg], after[u.Arg])}
			fmt.Sscanf(cur[u.Arg]["scopes"], "[%d:", &f.Nsc)
			for i := range hs {
				if i != u.Arg {
					for _, d := range c06aSnapDiff(cur[i], after[i]) {
						f.Others = append(f.Others, fmt.Sprintf("h%d.%s", i, d))
					}
				}
			}
			if len(f.Changed) > 0 && run.Detail == "" {
				k := f.Changed[0]
				run.Detail = fmt.Sprintf("use %d (%s) changed h%d.%s: %s  →  %s", ui, u.Pos, u.Arg, k, c06aClip(cur[u.Arg][k]), c06aClip(after[u.Arg][k]))
			}
			run.Facts = append(run.Facts, f)
			cur = after
		}
		for i := range hs {
			for _, d := range c06aSnapDiff(before[i], cur[i]) {
				run.SnapDiff = append(run.SnapDiff, fmt.Sprintf("h%d.%s", i, d))
			}
		}
	}
	run.Probes = probe(h.Probes)
	end := snapAll()
	for i := range hs {
		for _, d := range c06aSnapDiff(before[i], end[i]) {
			run.EndDiff = append(run.EndDiff, fmt.Sprintf("h%d.%s", i, d))
		}
	}
	return run
}

func c06aClip(s string) string {
	if len(s) > 400 {
		return s[:400] + "…"
	}
	return s
}

// ---- oracle -------------------------------------------------------------------------------------------

type c06aVerdict struct {
	ProbeBad int    // index of the first probe that differs from its replay alone (-1 = none)
	In, Al   string // its observation inside the history / alone
	SnapDiff []string
	EndDiff  []string
	Detail   string
	Full     c06aRun
}

func c06aJudge(w *c06aWorld, h c06aHist) c06aVerdict {
	full := c06aExec(w, h, true)
	alone := c06aExec(w, h, false)
	v := c06aVerdict{ProbeBad: -1, SnapDiff: full.SnapDiff, Detail: full.Detail, Full: full}
	for i := range full.Probes {
		if full.Probes[i] != alone.Probes[i] {
			v.ProbeBad, v.In, v.Al = i, full.Probes[i], alone.Probes[i]
			break
		}
	}
	// probes themselves (chains derived from the handles) must not change the handles either
	v.EndDiff = append(append([]string(nil), alone.EndDiff...), full.EndDiff...)
	if len(full.SnapDiff) > 0 {
		v.EndDiff = nil // attributed to the uses
	}
	return v
}

func (v c06aVerdict) bad() bool { return v.ProbeBad >= 0 || len(v.SnapDiff) > 0 || len(v.EndDiff) > 0 }

func c06aAllProbes(h c06aHist) c06aHist {
	c := h
	c.Probes = nil
	for i := range h.Handles {
		for k := 0; k < c06aProbeKinds; k++ {
			c.Probes = append(c.Probes, c06aProbe{H: i, K: k})
		}
	}
	return c
}

func c06aShrink(w *c06aWorld, h c06aHist, still func(c06aVerdict) bool) c06aHist {
	cur := h
	try := func(c c06aHist) bool {
		if still(c06aJudge(w, c)) {
			cur = c
			return true
		}
		return false
	}
	for changed := true; changed; {
		changed = false
		for i := len(cur.Uses) - 1; i >= 0 && len(cur.Uses) > 1; i-- {
			c := cur
			c.Uses = append(append([]c06aUse(nil), cur.Uses[:i]...), cur.Uses[i+1:]...)
			changed = try(c) || changed
		}
		for i := len(cur.Probes) - 1; i >= 0 && len(cur.Probes) > 1; i-- {
			if i >= len(cur.Probes) {
				continue
			}
			c := cur
			c.Probes = append(append([]c06aProbe(nil), cur.Probes[:i]...), cur.Probes[i+1:]...)
			changed = try(c) || changed
		}
		if len(cur.Pre) > 0 {
			c := cur
			c.Pre = nil
			changed = try(c) || changed
		}
		for hi := range cur.Handles {
			for i := len(cur.Handles[hi].Ops) - 1; i >= 0; i-- {
				if i >= len(cur.Handles[hi].Ops) {
					continue
				}
				c := cur
				c.Handles = append([]c06aHandle(nil), cur.Handles...)
				x := c.Handles[hi]
				x.Ops = append(append([]c06aOp(nil), x.Ops[:i]...), x.Ops[i+1:]...)
				c.Handles[hi] = x
				changed = try(c) || changed
			}
		}
		if cur.Cfg != 0 {
			c := cur
			c.Cfg = 0
			changed = try(c) || changed
		}
	}
	return cur
}

func c06aReport(r *Result, w *c06aWorld, h c06aHist, v c06aVerdict) {
	if v.ProbeBad < 0 {
		// look for a chain that SHOWS the difference: every probe kind on every handle
		if v2 := c06aJudge(w, c06aAllProbes(h)); v2.ProbeBad >= 0 {
			h, v = c06aAllProbes(h), v2
		}
	}
	if v.ProbeBad >= 0 {
		min := c06aShrink(w, h, func(x c06aVerdict) bool { return x.ProbeBad >= 0 })
		mv := c06aJudge(w, min)
		r.H("arg_violation_pos", min.Uses[0].Pos)
		r.Violate(Violation{Kind: "e2e", Suite: "arg", Input: min, Observed: mv.In, Expected: mv.Al,
			Note: "a chain derived from a handle AFTER the handle was handed to another chain as an argument differs from the same chain replayed alone (argument use never happened); " + mv.Detail + "; history: " + min.Desc()})
		return
	}
	if len(v.SnapDiff) > 0 {
		min := c06aShrink(w, h, func(x c06aVerdict) bool { return len(x.SnapDiff) > 0 })
		mv := c06aJudge(w, min)
		r.CorrDiffs++
		r.Violate(Violation{Kind: "correspondence", Suite: "argtie", Input: min, Observed: mv.SnapDiff, Expected: "no field of any handle's statement differs after the argument uses",
			Note: "an argument use wrote into a handle's statement (deep reflection snapshot differs; no generated probe shows it): " + mv.Detail + "; history: " + min.Desc()})
		return
	}
	min := c06aShrink(w, h, func(x c06aVerdict) bool { return len(x.EndDiff) > 0 })
	mv := c06aJudge(w, min)
	r.CorrDiffs++
	r.Violate(Violation{Kind: "correspondence", Suite: "argtie", Input: min, Observed: mv.EndDiff, Expected: "no field of any handle's statement differs after chains were derived from it",
		Note: "a chain DERIVED from a handle wrote into the handle's statement (deep reflection snapshot); history: " + min.Desc()})
}

// ---- tie with the Lean model ---------------------------------------------------------------------------------

// the argument's state in the model's vocabulary: kinds of its WHERE elements (0 plain, 1 single Or, 2 Not), pending scopes
func c06aModelState(h c06aHist, i int) (kinds []int, nsc int, ok bool) {
	ok = true
	if h.Handles[i].Src >= 0 {
		kinds, nsc, ok = c06aModelState(h, h.Handles[i].Src)
	}
	for _, o := range h.Handles[i].Ops {
		switch o.K {
		case "where", "cwhere":
			kinds = append(kinds, 0)
		case "or", "or2", "ormap", "cor":
			kinds = append(kinds, 1)
		case "not", "notmap":
			kinds = append(kinds, 2)
		case "scope", "scopeor", "scopesel":
			nsc++
		case "scope2":
			nsc += 2
		case "joins":
			if t := c06aTableOf(h, i); t == "" || t == "c06a_users" {
				kinds = append(kinds, 0)
			}
		}
	}
	return
}

type c06aTieCase struct {
	h    c06aHist
	use  c06aUse
	fact c06aUseFact
}

func c06aCategory(fields []string) []string {
	set := map[string]bool{}
	for _, f := range fields {
		switch f {
		case "where", "scopes", "selects", "joins":
			set[f] = true
		default:
			set["other:"+f] = true
		}
	}
	out := []string{}
	for _, k := range []string{"where", "scopes", "selects", "joins"} {
		if set[k] {
			out = append(out, k)
			delete(set, k)
		}
	}
	var rest []string
	for k := range set {
		rest = append(rest, k)
	}
	sort.Strings(rest)
	return append(out, rest...)
}

func c06aTie(r *Result, cases []c06aTieCase) {
	if len(cases) == 0 {
		return
	}
	ops := make([][]interface{}, len(cases))
	for i, c := range cases {
		kinds, _, _ := c06aModelState(c.h, c.use.Arg)
		nsc := c.fact.Nsc
		qc := 0
		if c.use.Pos == "joins" || c.use.Pos == "innerjoins" {
			qc = 7 // the joined model (C06AAcct) has a soft-delete query clause
		}
		ops[i] = []interface{}{"c06.arguse", c06aPositions[c.use.Pos].site, c06Ints(kinds), nsc, qc}
	}
	res, err := AskLean(ops)
	if err != nil {
		r.Violate(Violation{Kind: "correspondence", Suite: "argtie", Input: "driver", Observed: err.Error(), Expected: "answers"})
		return
	}
	for i, c := range cases {
		var lr struct {
			Changed []string `json:"changed"`
			Writes  int      `json:"writes"`
			Safe    bool     `json:"safe"`
		}
		if err := json.Unmarshal(res[i], &lr); err != nil {
			r.Violate(Violation{Kind: "correspondence", Suite: "argtie", Input: c.h, Observed: string(res[i]), Expected: "a result object"})
			continue
		}
		r.CorrCompared++
		r.H("argtie_site", c06aPositions[c.use.Pos].site)
		r.H("argtie_model_says", fmt.Sprint(lr.Changed, " safe=", lr.Safe))
		real := c06aCategory(c.fact.Changed)
		want := lr.Changed
		if want == nil {
			want = []string{}
		}
		if !reflect.DeepEqual(real, want) {
			r.CorrDiffs++
			r.Violate(Violation{Kind: "correspondence", Suite: "argtie", Input: c06aHist{Cfg: c.h.Cfg, Handles: c.h.Handles, Uses: []c06aUse{c.use}, Probes: c.h.Probes},
				Observed: real, Expected: want,
				Note: fmt.Sprintf("parts of the ARGUMENT handle's statement changed by %s(h%d): real code vs Lean model (site %s); %s", c.use.Pos, c.use.Arg, c06aPositions[c.use.Pos].site, c.h.Desc())})
		}
	}
}

// ---- generator ---------------------------------------------------------------------------------------

var c06aStateOps = []string{"where", "where", "where", "or", "or", "or", "or2", "ormap", "not", "notmap", "scope", "scope", "scopeor", "scopesel", "scope2",
	"select", "select", "omit", "limit", "offset", "order", "joins", "unscoped", "hint", "cwhere", "cor", "group", "having", "distinct"}
var c06aDerives = []string{"session", "session", "session", "ctx", "ctx", "debug", "skiphooks", "qf", "dry", "sessctx"}

func c06aGenOps(rng *rand.Rand, n int, withModel bool) []c06aOp {
	var ops []c06aOp
	if withModel {
		switch rng.Intn(10) {
		case 0:
		case 1:
			ops = append(ops, c06aOp{K: "table", N: rng.Intn(3)})
		case 2:
			ops = append(ops, c06aOp{K: "model", N: 1})
		case 3:
			ops = append(ops, c06aOp{K: "model", N: 2})
		default:
			ops = append(ops, c06aOp{K: "model", N: 0})
		}
	}
	// shapes that matter for in-place rewrites: lone Or / leading Or / pending scopes only
	switch rng.Intn(8) {
	case 0:
		return append(ops, c06aOp{K: []string{"or", "or2", "ormap", "cor"}[rng.Intn(4)], N: rng.Intn(30)})
	case 1:
		return append(ops, c06aOp{K: "or", N: rng.Intn(30)}, c06aOp{K: "where", N: rng.Intn(30)})
	case 2:
		return append(ops, c06aOp{K: []string{"scope", "scopeor", "scopesel", "scope2"}[rng.Intn(4)], N: rng.Intn(30)})
	case 3:
		return append(ops, c06aOp{K: "select", N: rng.Intn(2)}, c06aOp{K: []string{"scope", "or", "where", "not"}[rng.Intn(4)], N: rng.Intn(30)})
	}
	for i := 0; i < n; i++ {
		ops = append(ops, c06aOp{K: c06aStateOps[rng.Intn(len(c06aStateOps))], N: rng.Intn(30)})
	}
	return ops
}

func c06aGenerate(rng *rand.Rand) c06aHist {
	h := c06aHist{Cfg: []int{0, 0, 0, 1, 2, 4, 3, 7}[rng.Intn(8)]}
	h.Handles = append(h.Handles, c06aHandle{Src: -1, Ops: c06aGenOps(rng, rng.Intn(5), true), Derive: c06aDerives[rng.Intn(len(c06aDerives))]})
	if rng.Intn(2) == 0 {
		var ops []c06aOp
		for i, n := 0, rng.Intn(3); i < n; i++ {
			ops = append(ops, c06aOp{K: c06aStateOps[rng.Intn(len(c06aStateOps))], N: rng.Intn(30)})
		}
		h.Handles = append(h.Handles, c06aHandle{Src: 0, Ops: ops, Derive: c06aDerives[rng.Intn(len(c06aDerives))]})
	}
	if rng.Intn(3) == 0 {
		h.Handles = append(h.Handles, c06aHandle{Src: -1, Ops: c06aGenOps(rng, rng.Intn(4), true), Derive: c06aDerives[rng.Intn(len(c06aDerives))]})
	}
	nh := len(h.Handles)
	if rng.Intn(4) == 0 {
		h.Pre = append(h.Pre, c06aProbe{H: rng.Intn(nh), K: rng.Intn(c06aProbeKinds)})
	}
	used := map[int]bool{}
	for i, n := 0, 1+rng.Intn(3); i < n; i++ {
		u := c06aUse{Pos: c06aPosNames[rng.Intn(len(c06aPosNames))], Arg: rng.Intn(nh), Mode: rng.Intn(3), N: rng.Intn(10)}
		used[u.Arg] = true
		h.Uses = append(h.Uses, u)
	}
	for a := range h.Handles {
		if used[a] {
			h.Probes = append(h.Probes, c06aProbe{H: a, K: rng.Intn(c06aProbeKinds)}, c06aProbe{H: a, K: rng.Intn(5)})
		}
	}
	sort.Slice(h.Probes, func(i, j int) bool {
		if h.Probes[i].H != h.Probes[j].H {
			return h.Probes[i].H < h.Probes[j].H
		}
		return h.Probes[i].K < h.Probes[j].K
	})
	// relatives of the arguments (they share arrays with them)
	for i := 0; i < 1+rng.Intn(2); i++ {
		h.Probes = append(h.Probes, c06aProbe{H: rng.Intn(nh), K: rng.Intn(c06aProbeKinds)})
	}
	return h
}

func c06aStats(r *Result, h c06aHist, v c06aVerdict) {
	for _, x := range h.Handles {
		r.H("arg_derive", x.Derive)
		for _, o := range x.Ops {
			r.H("arg_state_op", o.K)
		}
	}
	for i, u := range h.Uses {
		r.H("arg_position", u.Pos)
		r.H("arg_consumer", []string{"executed", "dry-run", "abandoned/dry-run"}[u.Mode%3])
		kinds, nsc, _ := c06aModelState(h, u.Arg)
		shape := "other"
		switch {
		case len(kinds) == 0 && nsc > 0:
			shape = "scopes only"
		case len(kinds) == 1 && kinds[0] == 1:
			shape = "lone Or"
		case c06LeadingOr(kinds):
			shape = "leading Or"
		case len(kinds) == 0:
			shape = "no condition"
		}
		if nsc > 0 && shape != "scopes only" {
			shape += " + pending scopes"
		}
		r.H("arg_shape", shape)
		if i < len(v.Full.Facts) {
			n := v.Full.Facts[i].Note
			if strings.HasPrefix(n, "panic") {
				n = "panic"
			}
			r.H("arg_consumer_outcome", n)
		}
	}
	for _, p := range h.Probes {
		r.H("arg_probe_kind", fmt.Sprint(p.K))
	}
	r.H("arg_handles", fmt.Sprint(len(h.Handles)))
}

func c06aSuite(r *Result, rng *rand.Rand, rounds int) {
	w := c06aOpenWorld()
	defer w.close()
	var ties []c06aTieCase
	for i := 0; i < rounds && !expired(); i++ {
		h := c06aGenerate(rng)
		v := c06aJudge(w, h)
		c06aStats(r, h, v)
		r.Case("arg", canon(h), len(h.Uses) >= 1 && len(h.Probes) >= 2)
		if v.bad() {
			c06aReport(r, w, h, v)
		}
		for _, f := range v.Full.Facts {
			u := h.Uses[f.Use]
			if c06aPositions[u.Pos].site == "addvar" && !c06aPositions[u.Pos].finisher && u.Mode == 2 {
				continue // a value position on an abandoned chain is never built
			}
			if f.Note != "ok" && f.Note != "assoc" {
				continue // the consumer failed / panicked somewhere: the site may not have been reached
			}
			if u.Pos == "joinraw" && u.Mode != 2 {
				continue // a raw join holding a handle reaches BOTH sites once it is built: joins() and, for the Conds, AddVar
			}
			ties = append(ties, c06aTieCase{h, u, f})
		}
		if len(ties) >= 1500 {
			c06aTie(r, ties)
			ties = nil
		}
		if i%211 == 0 {
			r.Sample(map[string]interface{}{"arg_history": h.Desc()})
		}
	}
	c06aTie(r, ties)
}

func init() {
	register("C06", func(r *Result, rng *rand.Rand, tier string) {
		rounds := 1400
		if tier == "thorough" {
			rounds = 30000
		} else if tier == "search" {
			rounds = 6000
		}
		c06aSuite(r, rng, rounds)
	})
	replay := func(r *Result, input json.RawMessage) {
		var h c06aHist
		if err := json.Unmarshal(input, &h); err != nil {
			r.Violate(Violation{Kind: "e2e", Suite: "arg", Input: string(input), Observed: err.Error(), Expected: "a history"})
			return
		}
		w := c06aOpenWorld()
		defer w.close()
		v := c06aJudge(w, h)
		if v.bad() {
			c06aReport(r, w, h, v)
		}
		var ties []c06aTieCase
		for _, f := range v.Full.Facts {
			ties = append(ties, c06aTieCase{h, h.Uses[f.Use], f})
		}
		c06aTie(r, ties)
	}
	replayers["C06/arg"] = replay
	replayers["C06/argtie"] = replay
}
