package main

// C08 (round 5) — suite `dest`: DESTINATION REUSE for reads on soft-delete models.
//
// The dimension that was constant in every C08 suite so far: the destination of a read was always a FRESH variable.  Here the
// same struct / pointer / slice / map variable is used for a SECOND read after rows were soft-deleted (or restored) in between
// (or after a first read that was Unscoped), so the destination still carries the earlier result INCLUDING its relation fields.
//
// Zoo (every model soft-deletable; NULL / zeroValue / pointer-DeletedAt / flag mode): D8Owner with
//   has-one  value Acct, pointer Den (an owner may have an older MARKED den besides the live one);
//   polymorphic has-one value Badge, pointer Seal (flag mode);  belongs-to value Firm, pointer Boss (self reference);
//   has-many []D8Pet, []*D8Cat (zeroValue);  polymorphic has-many Notes;  many2many []D8Lang, []*D8Club (zeroValue);
// a second level below them (Acct.Card pointer has-one, Firm.Seat value has-one, Pet.Chip value has-one, Pet.Toys, Den.Keys)
// and D8Order above (belongs-to pointer Owner, belongs-to value Payer) for loads BELOW a joined relation.
//
// A case = first load (spec1: Preload paths of depth 1..3, Joins / InnerJoins of single-valued relations, Unscoped or not,
// finisher) into a destination  →  mutation of the tables (soft-delete through gorm Delete / raw UPDATE, restore, nothing)
// →  second load (spec2, the same or another root key, finisher First / Take / Last / Find(&one) / Find(&slice) /
// FindInBatches / Scan / Rows+ScanRows / Association().Find, destination kinds struct, *struct, **struct, []T, []*T,
// pre-sized slices, map, []map) into THE SAME destination.
// ORACLE (the property's read sentence, judged on the reloaded destination against raw SQL dumps taken after the mutation):
//   root     the rows the second read DELIVERED (RowsAffected / the slice / the part appended to a []map) are exactly the
//            visible rows matching the key condition;
//   relation every relation field that the second load ASKED for (its Preload / Joins paths) holds exactly the visible related
//            rows of the loaded record — "as if the marked rows did not exist" — whatever the destination held before; with
//            Unscoped the marked (and with a later restore: the restored) rows are there again.
// Latitudes: a root that was not delivered (ErrRecordNotFound, RowsAffected 0) leaves the destination alone — nothing below
// it is judged; relation fields the second load did not ask for are not judged; scalar columns are not judged at all (C15's
// F7d: stale NULL columns of a reused struct); a []map destination is appended to (only the appended part is judged);
// has-one with several visible candidates: any one of them.
// Tie (`dest.tie`): for every judged relation the Lean model (Model/PreloadAssign.lean: `preloadField` = clean-up step of the
// regenerated arms + assignment loop; `joinsAssign` for joined relations) is run on (destination kind, relation kind, old
// field content, visible rows) and compared with the real field.

import (
	"encoding/json"
	"fmt"
	"math/rand"
	"reflect"
	"sort"
	"strings"

	"gorm.io/gorm"
	"gorm.io/gorm/clause"
)

const c08DZero = "1970-01-01 00:00:01"

type D8Owner struct {
	ID        uint `gorm:"primaryKey"`
	Name      string
	Acct      D8Acct  `gorm:"foreignKey:OwnerID"`
	Den       *D8Den  `gorm:"foreignKey:OwnerID"`
	Badge     D8Badge `gorm:"polymorphic:Subject"`
	Seal      *D8Seal `gorm:"polymorphic:Subject"`
	FirmID    uint
	Firm      D8Firm
	BossID    *uint
	Boss      *D8Owner
	Pets      []D8Pet   `gorm:"foreignKey:OwnerID"`
	Cats      []*D8Cat  `gorm:"foreignKey:OwnerID"`
	Notes     []D8Note  `gorm:"polymorphic:Subject"`
	Langs     []D8Lang  `gorm:"many2many:d8_owner_langs"`
	Clubs     []*D8Club `gorm:"many2many:d8_owner_clubs"`
	DeletedAt gorm.DeletedAt
}
type D8Acct struct {
	ID        uint `gorm:"primaryKey"`
	OwnerID   uint
	V         int
	Card      *D8Card `gorm:"foreignKey:AcctID"`
	DeletedAt gorm.DeletedAt
}
type D8Card struct {
	ID        uint `gorm:"primaryKey"`
	AcctID    uint
	DeletedAt *gorm.DeletedAt
}
type D8Den struct {
	ID        uint `gorm:"primaryKey"`
	OwnerID   uint
	V         int
	Keys      []D8Key        `gorm:"foreignKey:DenID"`
	DeletedAt gorm.DeletedAt `gorm:"zeroValue:1970-01-01 00:00:01;default:'1970-01-01 00:00:01'"`
}
type D8Key struct {
	ID        uint `gorm:"primaryKey"`
	DenID     uint
	DeletedAt gorm.DeletedAt
}
type D8Badge struct {
	ID          uint `gorm:"primaryKey"`
	SubjectID   uint
	SubjectType string
	V           int
	DeletedAt   gorm.DeletedAt
}
type D8Seal struct {
	ID          uint `gorm:"primaryKey"`
	SubjectID   uint
	SubjectType string
	V           int
	Gone        C08Flag
}
type D8Firm struct {
	ID        uint `gorm:"primaryKey"`
	V         int
	Seat      D8Seat `gorm:"foreignKey:FirmID"`
	DeletedAt gorm.DeletedAt
}
type D8Seat struct {
	ID        uint `gorm:"primaryKey"`
	FirmID    uint
	DeletedAt gorm.DeletedAt
}
type D8Pet struct {
	ID        uint `gorm:"primaryKey"`
	OwnerID   uint
	V         int
	Chip      D8Chip  `gorm:"foreignKey:PetID"`
	Toys      []D8Toy `gorm:"foreignKey:PetID"`
	DeletedAt gorm.DeletedAt
}
type D8Chip struct {
	ID        uint `gorm:"primaryKey"`
	PetID     uint
	DeletedAt gorm.DeletedAt
}
type D8Toy struct {
	ID        uint `gorm:"primaryKey"`
	PetID     uint
	DeletedAt gorm.DeletedAt
}
type D8Cat struct {
	ID        uint `gorm:"primaryKey"`
	OwnerID   uint
	V         int
	DeletedAt gorm.DeletedAt `gorm:"zeroValue:1970-01-01 00:00:01;default:'1970-01-01 00:00:01'"`
}
type D8Note struct {
	ID          uint `gorm:"primaryKey"`
	SubjectID   uint
	SubjectType string
	V           int
	DeletedAt   gorm.DeletedAt
}
type D8Lang struct {
	ID        uint `gorm:"primaryKey"`
	V         int
	DeletedAt gorm.DeletedAt
}
type D8Club struct {
	ID        uint `gorm:"primaryKey"`
	V         int
	DeletedAt gorm.DeletedAt `gorm:"zeroValue:1970-01-01 00:00:01;default:'1970-01-01 00:00:01'"`
}
type D8Order struct {
	ID        uint `gorm:"primaryKey"`
	OwnerID   uint
	Owner     *D8Owner
	PayerID   uint
	Payer     D8Owner `gorm:"foreignKey:PayerID"`
	DeletedAt gorm.DeletedAt
}

// ---- description of the zoo for the generic judge (raw SQL only, independent of gorm's relation machinery) ----------------

type c08DRel struct {
	Field  string
	Kind   string // hasone belongsto hasmany m2m
	Target string
	// raw query (alias t for the target table) delivering the target ids of ONE record of the owning table, by its id
	Q      string
	Single bool
	Join   bool // may be loaded through Joins
}
type c08DTab struct {
	Name  string
	Table string
	Type  reflect.Type
	Mode  string // null zero flag
	Col   string
	Rels  []c08DRel
}

func (t *c08DTab) live(alias string) string {
	l, _ := c08LiveOf(t.Mode, alias+"."+t.Col)
	return l
}
func (t *c08DTab) marked() string {
	_, m := c08LiveOf(t.Mode, t.Col)
	return m
}
func (t *c08DTab) liveLit() string {
	switch t.Mode {
	case "zero":
		return "'" + c08DZero + "'"
	case "flag":
		return "0"
	}
	return "NULL"
}
func (t *c08DTab) rel(field string) *c08DRel {
	for i := range t.Rels {
		if t.Rels[i].Field == field {
			return &t.Rels[i]
		}
	}
	return nil
}

var c08DTabs = func() map[string]*c08DTab {
	poly := func(table string) string {
		return "SELECT t.id FROM " + table + " t WHERE t.subject_type = 'd8_owners' AND t.subject_id = ?"
	}
	tabs := []*c08DTab{
		{Name: "owner", Table: "d8_owners", Type: reflect.TypeOf(D8Owner{}), Mode: "null", Col: "deleted_at", Rels: []c08DRel{
			{Field: "Acct", Kind: "hasone", Target: "acct", Q: "SELECT t.id FROM d8_accts t WHERE t.owner_id = ?", Single: true, Join: true},
			{Field: "Den", Kind: "hasone", Target: "den", Q: "SELECT t.id FROM d8_dens t WHERE t.owner_id = ?", Single: true},
			{Field: "Badge", Kind: "hasone", Target: "badge", Q: poly("d8_badges"), Single: true},
			{Field: "Seal", Kind: "hasone", Target: "seal", Q: poly("d8_seals"), Single: true, Join: true},
			{Field: "Firm", Kind: "belongsto", Target: "firm", Q: "SELECT t.id FROM d8_firms t WHERE t.id = (SELECT firm_id FROM d8_owners WHERE id = ?)", Single: true, Join: true},
			{Field: "Boss", Kind: "belongsto", Target: "owner", Q: "SELECT t.id FROM d8_owners t WHERE t.id = (SELECT boss_id FROM d8_owners WHERE id = ?)", Single: true, Join: true},
			{Field: "Pets", Kind: "hasmany", Target: "pet", Q: "SELECT t.id FROM d8_pets t WHERE t.owner_id = ?"},
			{Field: "Cats", Kind: "hasmany", Target: "cat", Q: "SELECT t.id FROM d8_cats t WHERE t.owner_id = ?"},
			{Field: "Notes", Kind: "hasmany", Target: "note", Q: poly("d8_notes")},
			{Field: "Langs", Kind: "m2m", Target: "lang", Q: "SELECT t.id FROM d8_langs t JOIN d8_owner_langs j ON j.d8_lang_id = t.id WHERE j.d8_owner_id = ?"},
			{Field: "Clubs", Kind: "m2m", Target: "club", Q: "SELECT t.id FROM d8_clubs t JOIN d8_owner_clubs j ON j.d8_club_id = t.id WHERE j.d8_owner_id = ?"},
		}},
		{Name: "acct", Table: "d8_accts", Type: reflect.TypeOf(D8Acct{}), Mode: "null", Col: "deleted_at", Rels: []c08DRel{
			{Field: "Card", Kind: "hasone", Target: "card", Q: "SELECT t.id FROM d8_cards t WHERE t.acct_id = ?", Single: true}}},
		{Name: "card", Table: "d8_cards", Type: reflect.TypeOf(D8Card{}), Mode: "null", Col: "deleted_at"},
		{Name: "den", Table: "d8_dens", Type: reflect.TypeOf(D8Den{}), Mode: "zero", Col: "deleted_at", Rels: []c08DRel{
			{Field: "Keys", Kind: "hasmany", Target: "key", Q: "SELECT t.id FROM d8_keys t WHERE t.den_id = ?"}}},
		{Name: "key", Table: "d8_keys", Type: reflect.TypeOf(D8Key{}), Mode: "null", Col: "deleted_at"},
		{Name: "badge", Table: "d8_badges", Type: reflect.TypeOf(D8Badge{}), Mode: "null", Col: "deleted_at"},
		{Name: "seal", Table: "d8_seals", Type: reflect.TypeOf(D8Seal{}), Mode: "flag", Col: "gone"},
		{Name: "firm", Table: "d8_firms", Type: reflect.TypeOf(D8Firm{}), Mode: "null", Col: "deleted_at", Rels: []c08DRel{
			{Field: "Seat", Kind: "hasone", Target: "seat", Q: "SELECT t.id FROM d8_seats t WHERE t.firm_id = ?", Single: true}}},
		{Name: "seat", Table: "d8_seats", Type: reflect.TypeOf(D8Seat{}), Mode: "null", Col: "deleted_at"},
		{Name: "pet", Table: "d8_pets", Type: reflect.TypeOf(D8Pet{}), Mode: "null", Col: "deleted_at", Rels: []c08DRel{
			{Field: "Chip", Kind: "hasone", Target: "chip", Q: "SELECT t.id FROM d8_chips t WHERE t.pet_id = ?", Single: true},
			{Field: "Toys", Kind: "hasmany", Target: "toy", Q: "SELECT t.id FROM d8_toys t WHERE t.pet_id = ?"}}},
		{Name: "chip", Table: "d8_chips", Type: reflect.TypeOf(D8Chip{}), Mode: "null", Col: "deleted_at"},
		{Name: "toy", Table: "d8_toys", Type: reflect.TypeOf(D8Toy{}), Mode: "null", Col: "deleted_at"},
		{Name: "cat", Table: "d8_cats", Type: reflect.TypeOf(D8Cat{}), Mode: "zero", Col: "deleted_at"},
		{Name: "note", Table: "d8_notes", Type: reflect.TypeOf(D8Note{}), Mode: "null", Col: "deleted_at"},
		{Name: "lang", Table: "d8_langs", Type: reflect.TypeOf(D8Lang{}), Mode: "null", Col: "deleted_at"},
		{Name: "club", Table: "d8_clubs", Type: reflect.TypeOf(D8Club{}), Mode: "zero", Col: "deleted_at"},
		{Name: "order", Table: "d8_orders", Type: reflect.TypeOf(D8Order{}), Mode: "null", Col: "deleted_at", Rels: []c08DRel{
			{Field: "Owner", Kind: "belongsto", Target: "owner", Q: "SELECT t.id FROM d8_owners t WHERE t.id = (SELECT owner_id FROM d8_orders WHERE id = ?)", Single: true, Join: true},
			{Field: "Payer", Kind: "belongsto", Target: "owner", Q: "SELECT t.id FROM d8_owners t WHERE t.id = (SELECT payer_id FROM d8_orders WHERE id = ?)", Single: true, Join: true},
		}},
	}
	m := map[string]*c08DTab{}
	for _, t := range tabs {
		m[t.Name] = t
	}
	return m
}()

var c08DTabOrder = []string{"owner", "acct", "card", "den", "key", "badge", "seal", "firm", "seat", "pet", "chip", "toy", "cat", "note", "lang", "club", "order"}

// ---- world -----------------------------------------------------------------------------------------------------------------

func c08DExec(db *gorm.DB, q string, args ...interface{}) {
	if err := db.Exec(q, args...).Error; err != nil {
		panic(fmt.Sprintf("c08 dest: %s: %v", q, err))
	}
}

func c08DSeed(db *gorm.DB, rng *rand.Rand) (nOwners, nOrders int) {
	var models []interface{}
	for _, n := range c08DTabOrder {
		models = append(models, reflect.New(c08DTabs[n].Type).Interface())
	}
	if err := db.AutoMigrate(models...); err != nil {
		panic(err)
	}
	next := map[string]int{}
	ins := func(tab string, cols string, vals ...interface{}) int {
		t := c08DTabs[tab]
		next[tab]++
		id := next[tab]
		mark := t.liveLit()
		if rng.Intn(4) == 0 {
			mark = t.marked()
		}
		ph := strings.Repeat(", ?", len(vals))
		if cols != "" {
			cols = ", " + cols
		}
		c08DExec(db, fmt.Sprintf("INSERT INTO %s (id, %s%s) VALUES (?, %s%s)", t.Table, t.Col, cols, mark, ph), append([]interface{}{id}, vals...)...)
		return id
	}
	nf := 2 + rng.Intn(2)
	for i := 0; i < nf; i++ {
		f := ins("firm", "v", rng.Intn(9))
		if rng.Intn(4) > 0 {
			ins("seat", "firm_id", f)
		}
	}
	nl, nc := 2+rng.Intn(2), 2+rng.Intn(2)
	for i := 0; i < nl; i++ {
		ins("lang", "v", i)
	}
	for i := 0; i < nc; i++ {
		ins("club", "v", i)
	}
	nOwners = 3 + rng.Intn(3)
	for i := 1; i <= nOwners; i++ {
		var boss interface{}
		if i > 1 && rng.Intn(4) > 0 {
			boss = 1 + rng.Intn(i-1)
		}
		o := ins("owner", "name, firm_id, boss_id", fmt.Sprintf("o%d", i), 1+rng.Intn(nf), boss)
		if rng.Intn(5) > 0 {
			a := ins("acct", "owner_id, v", o, rng.Intn(9))
			if rng.Intn(4) > 0 {
				ins("card", "acct_id", a)
			}
		}
		for k, n := 0, rng.Intn(3); k < n; k++ { // 0..2 dens: an owner may keep an older (marked or live) den
			d := ins("den", "owner_id, v", o, rng.Intn(9))
			for q, m := 0, rng.Intn(3); q < m; q++ {
				ins("key", "den_id", d)
			}
		}
		for k, n := 0, rng.Intn(3); k < n; k++ {
			ins("badge", "subject_id, subject_type, v", o, "d8_owners", rng.Intn(9))
		}
		if rng.Intn(5) > 0 {
			ins("seal", "subject_id, subject_type, v", o, "d8_owners", rng.Intn(9))
		}
		for k, n := 0, rng.Intn(4); k < n; k++ {
			p := ins("pet", "owner_id, v", o, rng.Intn(9))
			if rng.Intn(4) > 0 {
				ins("chip", "pet_id", p)
			}
			for q, m := 0, rng.Intn(3); q < m; q++ {
				ins("toy", "pet_id", p)
			}
		}
		for k, n := 0, rng.Intn(3); k < n; k++ {
			ins("cat", "owner_id, v", o, rng.Intn(9))
		}
		for k, n := 0, rng.Intn(3); k < n; k++ {
			ins("note", "subject_id, subject_type, v", o, "d8_owners", rng.Intn(9))
		}
		for l := 1; l <= nl; l++ {
			if rng.Intn(2) == 0 {
				c08DExec(db, "INSERT INTO d8_owner_langs (d8_owner_id, d8_lang_id) VALUES (?, ?)", o, l)
			}
		}
		for c := 1; c <= nc; c++ {
			if rng.Intn(2) == 0 {
				c08DExec(db, "INSERT INTO d8_owner_clubs (d8_owner_id, d8_club_id) VALUES (?, ?)", o, c)
			}
		}
	}
	nOrders = 3 + rng.Intn(3)
	for i := 0; i < nOrders; i++ {
		ins("order", "owner_id, payer_id", 1+rng.Intn(nOwners), 1+rng.Intn(nOwners))
	}
	return
}

func c08DIDs(db *gorm.DB, q string, args ...interface{}) []uint {
	out := []uint{}
	rows, err := db.Raw(q, args...).Rows()
	if err != nil {
		panic(fmt.Sprintf("c08 dest: %s: %v", q, err))
	}
	defer rows.Close()
	for rows.Next() {
		var id uint
		rows.Scan(&id)
		out = append(out, id)
	}
	sort.Slice(out, func(i, j int) bool { return out[i] < out[j] })
	return out
}

// the visible target rows of relation rel of record id ("as if the marked rows did not exist"; Unscoped: all of them)
func c08DVisible(db *gorm.DB, rel *c08DRel, id uint, unscoped bool) []uint {
	q := rel.Q
	if !unscoped {
		q += " AND " + c08DTabs[rel.Target].live("t")
	}
	return c08DIDs(db, q, id)
}

// ---- load specs ------------------------------------------------------------------------------------------------------------

type c08DLoad struct {
	Preloads []string `json:"preloads,omitempty"`
	Joins    []string `json:"joins,omitempty"`
	Inner    bool     `json:"inner,omitempty"`
	All      bool     `json:"all_associations,omitempty"` // Preload(clause.Associations)
	Unscoped bool     `json:"unscoped,omitempty"`
	Fin      string   `json:"fin"` // first take last find findslice batches scan rows
	Key      uint     `json:"key"` // single-record finishers: the root key
}

type c08DMut struct {
	Tab string `json:"tab"`
	ID  uint   `json:"id"`
	How string `json:"how"` // delete (gorm Delete by key) where (gorm Delete by condition) raw (UPDATE) restore
}

type c08DCase struct {
	Seed  int64     `json:"seed"`
	N     int       `json:"case_no"`
	Root  string    `json:"root"` // owner order
	Dest  string    `json:"dest"` // struct ptr pptr slice ptrslice capslice map maps
	Load1 c08DLoad  `json:"load1"`
	Muts  []c08DMut `json:"mutations"`
	Load2 c08DLoad  `json:"load2"`
}

func c08DGenPaths(rng *rand.Rand, root string, joinsOK bool) (preloads, joins []string) {
	var walk func(tab *c08DTab, prefix string, depth int, belowJoin bool)
	walk = func(tab *c08DTab, prefix string, depth int, belowJoin bool) {
		for _, rel := range tab.Rels {
			p := 3
			if depth > 0 {
				p = 2
			}
			if rng.Intn(p) != 0 {
				continue
			}
			path := prefix + rel.Field
			// Joins: single-valued relations, directly below the root or below a joined relation (two levels at most)
			if joinsOK && rel.Join && depth <= 1 && (depth == 0 || belowJoin) && rng.Intn(3) == 0 {
				joins = append(joins, path)
				if depth == 0 {
					walk(c08DTabs[rel.Target], path+".", depth+1, true)
				}
				continue
			}
			if belowJoin && depth >= 2 {
				continue
			}
			preloads = append(preloads, path)
			if depth < 2 && rel.Target != "order" {
				walk(c08DTabs[rel.Target], path+".", depth+1, false)
			}
		}
	}
	walk(c08DTabs[root], "", 0, false)
	// gorm preloads parents implicitly; keep only the leaves plus (sometimes) explicit inner nodes
	return
}

func c08DGenLoad(rng *rand.Rand, root, dest string, nRoot int, second bool, prevKey uint) c08DLoad {
	l := c08DLoad{Unscoped: rng.Intn(4) == 0, Inner: rng.Intn(5) == 0}
	single := dest == "struct" || dest == "pptr" || dest == "nilpptr" || dest == "map"
	switch {
	case dest == "map" || dest == "maps":
		l.Fin = []string{"find", "scan", "take"}[rng.Intn(3)]
		if dest == "maps" {
			l.Fin = []string{"findslice", "scan"}[rng.Intn(2)]
		}
	case single:
		l.Fin = []string{"first", "take", "last", "find", "first", "take", "scan", "rows"}[rng.Intn(8)]
	default:
		l.Fin = []string{"findslice", "findslice", "batches", "scan", "findslice"}[rng.Intn(5)]
	}
	if !second && (l.Fin == "scan" || l.Fin == "rows") {
		l.Fin = map[bool]string{true: "take", false: "findslice"}[single] // the first load should fill the relations
	}
	l.Key = uint(1 + rng.Intn(nRoot))
	if second && prevKey != 0 && rng.Intn(10) < 7 {
		l.Key = prevKey
	}
	plain := l.Fin == "scan" || l.Fin == "rows" || dest == "map" || dest == "maps"
	if !plain {
		l.Preloads, l.Joins = c08DGenPaths(rng, root, true)
		if rng.Intn(12) == 0 {
			l.Preloads, l.All = nil, true
		}
	}
	return l
}

func c08DGenCase(rng *rand.Rand, seed int64, n, nOwners, nOrders int) c08DCase {
	c := c08DCase{Seed: seed, N: n, Root: "owner"}
	nRoot := nOwners
	if rng.Intn(3) == 0 {
		c.Root, nRoot = "order", nOrders
	}
	c.Dest = []string{"struct", "struct", "struct", "struct", "pptr", "nilpptr", "slice", "ptrslice", "capslice", "map", "maps"}[rng.Intn(11)]
	c.Load1 = c08DGenLoad(rng, c.Root, c.Dest, nRoot, false, 0)
	if rng.Intn(3) > 0 {
		c.Load1.Unscoped = rng.Intn(3) == 0
	}
	c.Load2 = c08DGenLoad(rng, c.Root, c.Dest, nRoot, true, c.Load1.Key)
	switch rng.Intn(6) {
	case 0: // the second load asks for the same paths
		c.Load2.Preloads, c.Load2.Joins, c.Load2.All = c.Load1.Preloads, c.Load1.Joins, c.Load1.All
	case 1: // what was joined is preloaded and the other way round
		if c.Load2.Fin != "scan" && c.Load2.Fin != "rows" && c.Dest != "map" && c.Dest != "maps" {
			c.Load2.Preloads, c.Load2.Joins, c.Load2.All = nil, nil, false
			for _, p := range c.Load1.Joins {
				c.Load2.Preloads = append(c.Load2.Preloads, p)
			}
			for _, p := range c.Load1.Preloads {
				tab := c08DTabs[c.Root]
				if r := tab.rel(p); r != nil && r.Join {
					c.Load2.Joins = append(c.Load2.Joins, p)
				} else {
					c.Load2.Preloads = append(c.Load2.Preloads, p)
				}
			}
		}
	}
	if f := c.Load2.Fin; f == "scan" || f == "rows" || c.Dest == "map" || c.Dest == "maps" {
		c.Load2.Preloads, c.Load2.Joins, c.Load2.All = nil, nil, false // Scan / Rows / map destinations run no Preload
	}
	return c
}

// ---- destinations ----------------------------------------------------------------------------------------------------------

type c08DDest struct {
	kind string
	tab  *c08DTab
	v    reflect.Value            // struct: *T ; pptr/nilpptr: **T ; slices: *[]T / *[]*T
	m    map[string]interface{}   // map
	ms   []map[string]interface{} // maps
}

func c08DNewDest(tab *c08DTab, kind string) *c08DDest {
	d := &c08DDest{kind: kind, tab: tab}
	switch kind {
	case "struct":
		d.v = reflect.New(tab.Type)
	case "pptr":
		d.v = reflect.New(reflect.PtrTo(tab.Type))
		d.v.Elem().Set(reflect.New(tab.Type))
	case "nilpptr":
		d.v = reflect.New(reflect.PtrTo(tab.Type))
	case "slice":
		d.v = reflect.New(reflect.SliceOf(tab.Type))
	case "capslice":
		d.v = reflect.New(reflect.SliceOf(tab.Type))
		d.v.Elem().Set(reflect.MakeSlice(reflect.SliceOf(tab.Type), 0, 8))
	case "ptrslice":
		d.v = reflect.New(reflect.SliceOf(reflect.PtrTo(tab.Type)))
	case "map":
		d.m = map[string]interface{}{}
	}
	return d
}
func (d *c08DDest) arg() interface{} {
	switch d.kind {
	case "map":
		return &d.m
	case "maps":
		return &d.ms
	}
	return d.v.Interface()
}
func (d *c08DDest) single() bool {
	return d.kind == "struct" || d.kind == "pptr" || d.kind == "nilpptr" || d.kind == "map"
}

// the struct record(s) the destination holds now (addressable struct values)
func (d *c08DDest) records() []reflect.Value {
	var out []reflect.Value
	switch d.kind {
	case "struct":
		out = append(out, d.v.Elem())
	case "pptr", "nilpptr":
		if !d.v.Elem().IsNil() {
			out = append(out, d.v.Elem().Elem())
		}
	case "slice", "capslice", "ptrslice":
		s := d.v.Elem()
		for i := 0; i < s.Len(); i++ {
			e := s.Index(i)
			if e.Kind() == reflect.Ptr {
				if e.IsNil() {
					continue
				}
				e = e.Elem()
			}
			out = append(out, e)
		}
	}
	return out
}

func c08DID(v reflect.Value) uint { return uint(v.FieldByName("ID").Uint()) }

// ids held by a relation field (struct value: its ID when non-zero; pointer; slice of values / pointers), in field order
func c08DFieldIDs(f reflect.Value) (ids []uint, elems []reflect.Value) {
	ids = []uint{}
	switch f.Kind() {
	case reflect.Struct:
		if id := c08DID(f); id != 0 {
			ids, elems = append(ids, id), append(elems, f)
		}
	case reflect.Ptr:
		if !f.IsNil() {
			if id := c08DID(f.Elem()); id != 0 {
				ids, elems = append(ids, id), append(elems, f.Elem())
			}
		}
	case reflect.Slice:
		for i := 0; i < f.Len(); i++ {
			e := f.Index(i)
			if e.Kind() == reflect.Ptr {
				if e.IsNil() {
					continue
				}
				e = e.Elem()
			}
			ids, elems = append(ids, c08DID(e)), append(elems, e)
		}
	}
	return
}

func c08DSorted(a []uint) []uint {
	b := append([]uint{}, a...)
	sort.Slice(b, func(i, j int) bool { return b[i] < b[j] })
	return b
}

// snapshot of every relation field (two levels) of a record: path -> ids
func c08DSnapshot(v reflect.Value, tab *c08DTab, prefix string, depth int, out map[string][]uint) {
	for i := range tab.Rels {
		rel := &tab.Rels[i]
		ids, elems := c08DFieldIDs(v.FieldByName(rel.Field))
		out[prefix+rel.Field] = c08DSorted(ids)
		if depth > 0 && rel.Single && len(elems) == 1 {
			c08DSnapshot(elems[0], c08DTabs[rel.Target], prefix+rel.Field+".", depth-1, out)
		}
	}
}

// ---- running a load --------------------------------------------------------------------------------------------------------

type c08DOut struct {
	err       error
	delivered int64
	batches   []reflect.Value // FindInBatches: the records handed to the callback
	mapsFrom  int             // maps: length before the load
	panicked  interface{}
}

func c08DRunLoad(db *gorm.DB, root *c08DTab, d *c08DDest, l c08DLoad) (o c08DOut) {
	defer func() {
		if p := recover(); p != nil {
			o.panicked = p
		}
	}()
	q := db.Session(&gorm.Session{})
	if l.Unscoped {
		q = q.Unscoped()
	}
	for _, j := range l.Joins {
		if l.Inner {
			q = q.InnerJoins(j)
		} else {
			q = q.Joins(j)
		}
	}
	for _, p := range l.Preloads {
		q = q.Preload(p)
	}
	if l.All {
		q = q.Preload(clause.Associations)
	}
	idCol := "`" + root.Table + "`.`id`"
	if d.single() {
		q = q.Where(idCol+" = ?", l.Key)
	} else {
		q = q.Order(idCol)
	}
	model := reflect.New(root.Type).Interface()
	o.mapsFrom = len(d.ms)
	var res *gorm.DB
	switch l.Fin {
	case "first":
		if d.kind == "map" {
			res = q.Model(model).First(d.arg())
		} else {
			res = q.First(d.arg())
		}
	case "take":
		if d.kind == "map" {
			res = q.Model(model).Take(d.arg())
		} else {
			res = q.Take(d.arg())
		}
	case "last":
		res = q.Last(d.arg())
	case "find", "findslice":
		if d.kind == "map" || d.kind == "maps" {
			res = q.Model(model).Find(d.arg())
		} else {
			res = q.Find(d.arg())
		}
	case "scan":
		res = q.Model(model).Scan(d.arg())
	case "rows":
		rows, err := q.Model(model).Rows()
		if err != nil {
			o.err = err
			return
		}
		defer rows.Close()
		for rows.Next() {
			if err := db.ScanRows(rows, d.arg()); err != nil {
				o.err = err
				return
			}
			o.delivered++
		}
		return
	case "batches":
		res = q.FindInBatches(d.arg(), 2, func(tx *gorm.DB, _ int) error {
			for _, rec := range d.records() {
				cp := reflect.New(root.Type).Elem()
				cp.Set(rec)
				o.batches = append(o.batches, cp)
			}
			return nil
		})
	}
	o.err, o.delivered = res.Error, res.RowsAffected
	if l.Fin == "batches" {
		o.delivered = int64(len(o.batches))
	}
	return
}

// ---- mutations -------------------------------------------------------------------------------------------------------------

func c08DMutate(db *gorm.DB, rng *rand.Rand, d *c08DDest, intensity int) (muts []c08DMut) {
	// rows the destination currently shows are marked with a higher probability: "the only related row is soft-deleted"
	shown := map[string]bool{}
	var note func(v reflect.Value, tab *c08DTab, depth int)
	note = func(v reflect.Value, tab *c08DTab, depth int) {
		for i := range tab.Rels {
			rel := &tab.Rels[i]
			ids, elems := c08DFieldIDs(v.FieldByName(rel.Field))
			for k, id := range ids {
				shown[fmt.Sprint(rel.Target, "/", id)] = true
				if depth > 0 {
					note(elems[k], c08DTabs[rel.Target], depth-1)
				}
			}
		}
	}
	for _, rec := range d.records() {
		note(rec, d.tab, 2)
	}
	for _, name := range c08DTabOrder {
		t := c08DTabs[name]
		all := c08DIDs(db, "SELECT t.id FROM "+t.Table+" t")
		live := map[uint]bool{}
		for _, id := range c08DIDs(db, "SELECT t.id FROM "+t.Table+" t WHERE "+t.live("t")) {
			live[id] = true
		}
		for _, id := range all {
			p := 6
			if shown[fmt.Sprint(name, "/", id)] {
				p = 2
			}
			if name == d.tab.Name {
				p = 12 // the roots themselves: rarely
			}
			if intensity == 0 || rng.Intn(p) != 0 {
				continue
			}
			m := c08DMut{Tab: name, ID: id}
			if live[id] {
				m.How = []string{"delete", "where", "raw"}[rng.Intn(3)]
			} else if rng.Intn(2) == 0 {
				m.How = "restore"
			} else {
				continue
			}
			c08DApplyMut(db, m)
			muts = append(muts, m)
		}
	}
	return
}

func c08DApplyMut(db *gorm.DB, m c08DMut) {
	t := c08DTabs[m.Tab]
	var err error
	switch m.How {
	case "delete":
		err = db.Delete(reflect.New(t.Type).Interface(), m.ID).Error
	case "where":
		err = db.Where("id = ?", m.ID).Delete(reflect.New(t.Type).Interface()).Error
	case "raw":
		err = db.Exec("UPDATE "+t.Table+" SET "+t.Col+" = "+t.marked()+" WHERE id = ?", m.ID).Error
	case "restore":
		err = db.Exec("UPDATE "+t.Table+" SET "+t.Col+" = "+t.liveLit()+" WHERE id = ?", m.ID).Error
	}
	if err != nil {
		panic(fmt.Sprintf("c08 dest mutation %+v: %v", m, err))
	}
}

// ---- judging ---------------------------------------------------------------------------------------------------------------

type c08DNode struct {
	rel  *c08DRel
	join bool
	kids map[string]*c08DNode
}

func c08DTree(root *c08DTab, l c08DLoad) map[string]*c08DNode {
	top := map[string]*c08DNode{}
	add := func(path string, join bool) {
		cur, tab := top, root
		segs := strings.Split(path, ".")
		for i, s := range segs {
			rel := tab.rel(s)
			if rel == nil {
				return
			}
			n := cur[s]
			if n == nil {
				n = &c08DNode{rel: rel, kids: map[string]*c08DNode{}}
				cur[s] = n
			}
			if join && i == len(segs)-1 {
				n.join = true
			}
			cur, tab = n.kids, c08DTabs[rel.Target]
		}
	}
	for _, j := range l.Joins {
		add(j, true)
	}
	for _, p := range l.Preloads {
		add(p, false)
	}
	if l.All {
		for i := range root.Rels {
			add(root.Rels[i].Field, false)
		}
	}
	return top
}

// the root record `id` is delivered by load l iff it is visible and every INNER-joined chain below it is
func c08DRootVisible(db *gorm.DB, root *c08DTab, id uint, l c08DLoad) bool {
	q := "SELECT t.id FROM " + root.Table + " t WHERE t.id = ?"
	if !l.Unscoped {
		q += " AND " + root.live("t")
	}
	if len(c08DIDs(db, q, id)) == 0 {
		return false
	}
	if l.Inner {
		for _, j := range l.Joins {
			cur, tab := id, root
			for _, s := range strings.Split(j, ".") {
				rel := tab.rel(s)
				vis := c08DVisible(db, rel, cur, l.Unscoped)
				if len(vis) == 0 {
					return false
				}
				cur, tab = vis[0], c08DTabs[rel.Target]
			}
		}
	}
	return true
}

type c08DTieItem struct {
	Path    string `json:"path"`
	Via     string `json:"via"`  // preload joins
	Dest    string `json:"dest"` // struct slice: the `case` of preload()'s `switch reflectValue.Kind()`
	Kind    string `json:"kind"`
	Old     []uint `json:"old"`
	Fetched []uint `json:"fetched"`
	Got     []uint `json:"got"`
}

type c08DJudge struct {
	r      *Result
	db     *gorm.DB
	c      c08DCase
	un     bool
	old    map[string][]uint // relation content of the reused single record before the second load
	reused bool              // the root record is a struct that existed before the second load
	ties   []c08DTieItem
}

func (j *c08DJudge) bad(what string, obs, exp interface{}) {
	j.r.Violate(Violation{Kind: "e2e", Suite: "dest", Input: j.c, Observed: obs, Expected: exp, Note: what})
}

func c08DSubset(a, b []uint) bool {
	for _, x := range a {
		if !c08ContainsUint(b, x) {
			return false
		}
	}
	return true
}

func (j *c08DJudge) rec(v reflect.Value, tab *c08DTab, kids map[string]*c08DNode, path string, fresh bool) {
	id := c08DID(v)
	names := make([]string, 0, len(kids))
	for n := range kids {
		names = append(names, n)
	}
	sort.Strings(names)
	for _, name := range names {
		n := kids[name]
		exp := c08DVisible(j.db, n.rel, id, j.un)
		f := v.FieldByName(name)
		ids, elems := c08DFieldIDs(f)
		got := c08DSorted(ids)
		ok := sameUints(got, exp)
		if n.rel.Single {
			ok = len(got) <= 1 && (len(got) == 0) == (len(exp) == 0) && c08DSubset(got, exp)
		}
		via := "preload"
		if n.join {
			via = "joins"
		}
		old := []uint{}
		if !fresh && j.reused {
			old = j.old[path+name]
			if old == nil {
				old = []uint{}
			}
		}
		shape := "value"
		if f.Kind() == reflect.Ptr || f.Kind() == reflect.Slice && f.Type().Elem().Kind() == reflect.Ptr {
			shape = "pointer"
		}
		j.r.H("dest.relation", fmt.Sprintf("%s %s %s via %s depth=%d", n.rel.Kind, shape, map[bool]string{true: "into-fresh-parent", false: "into-REUSED-parent"}[fresh || !j.reused], via, strings.Count(path, ".")))
		if len(old) > 0 && !sameUints(old, exp) {
			j.r.H("dest.stale-chance", fmt.Sprintf("%s via %s: old content differs from the visible rows (now %d visible)", n.rel.Kind, via, len(exp)))
		}
		dk := "slice"
		if !fresh && j.reused && path == "" {
			dk = "struct"
		}
		j.ties = append(j.ties, c08DTieItem{Path: path + name, Via: via, Dest: dk, Kind: n.rel.Kind, Old: old, Fetched: exp, Got: got})
		if !ok {
			if n.join && len(exp) == 0 && len(old) > 0 && sameUints(got, old) && listed("F34-C08-joins-keep-stale-relation") {
				j.r.KnownFinding("F34-C08-joins-keep-stale-relation", fmt.Sprintf("%s reloaded in place with Joins(%q): the joined row is invisible now (all columns NULL), the relation field still holds row %v of the earlier load", tab.Name, path+name, got))
				continue // nothing below a stale joined relation is judged
			}
			j.bad(fmt.Sprintf("%s %d reloaded into a used destination: relation %s (%s, %s, loaded via %s) must hold exactly the visible rows; before the reload it held %v", tab.Name, id, path+name, n.rel.Kind, shape, via, old), got, exp)
			continue
		}
		// below: a preloaded relation is re-created (fresh); a joined POINTER relation is re-allocated, a joined VALUE relation
		// is scanned into in place
		below := true
		if n.join && f.Kind() == reflect.Struct {
			below = fresh
		}
		for _, e := range elems {
			j.rec(e, c08DTabs[n.rel.Target], n.kids, path+name+".", below)
		}
	}
}

// ---- one case --------------------------------------------------------------------------------------------------------------

func c08DOne(r *Result, db *gorm.DB, rng *rand.Rand, c *c08DCase, ties *[]c08DTieItem) {
	root := c08DTabs[c.Root]
	d := c08DNewDest(root, c.Dest)
	o1 := c08DRunLoad(db, root, d, c.Load1)
	if o1.panicked != nil {
		r.H("dest.panic", trunc(fmt.Sprint("load1: ", o1.panicked), 60))
		return
	}
	intensity := 1
	if rng.Intn(6) == 0 {
		intensity = 0
	}
	c.Muts = c08DMutate(db, rng, d, intensity)
	j := &c08DJudge{r: r, db: db, c: *c, un: c.Load2.Unscoped, old: map[string][]uint{}}
	var oldRootID uint
	if recs := d.records(); d.single() && len(recs) == 1 {
		j.reused = true
		oldRootID = c08DID(recs[0])
		c08DSnapshot(recs[0], root, "", 2, j.old)
	}
	nBefore := len(d.records())
	if f := c.Load2.Fin; oldRootID != 0 && f != "scan" && f != "rows" {
		// gorm turns the primary key a struct destination carries into a condition: a used struct can only be RE-loaded
		c.Load2.Key = oldRootID
	}
	j.c = *c
	o2 := c08DRunLoad(db, root, d, c.Load2)
	r.Case("dest", fmt.Sprint(c.Root, c.Dest, c.Load1.Fin, c.Load1.Unscoped, c.Load2, len(c.Muts) > 0), len(c.Muts) > 0 || c.Load1.Unscoped != c.Load2.Unscoped)
	r.H("dest.kind", fmt.Sprintf("root=%s dest=%s", c.Root, c.Dest))
	r.H("dest.finishers", c.Load1.Fin+" -> "+c.Load2.Fin)
	r.H("dest.unscoped", fmt.Sprintf("first=%v second=%v", c.Load1.Unscoped, c.Load2.Unscoped))
	r.H("dest.shape", fmt.Sprintf("second load: joins=%d inner=%v preloads=%d all=%v; destination held %d record(s)", len(c.Load2.Joins), c.Load2.Inner && len(c.Load2.Joins) > 0, len(c.Load2.Preloads), c.Load2.All, nBefore))
	for _, m := range c.Muts {
		r.H("dest.mutation", m.Tab+" "+m.How)
	}
	if o2.panicked != nil {
		r.H("dest.panic", trunc(fmt.Sprint("load2: ", o2.panicked), 60))
		return
	}
	notFound := o2.err == gorm.ErrRecordNotFound
	if o2.err != nil && !notFound {
		r.H("dest.error", trunc(o2.err.Error(), 60))
		return
	}
	tree := c08DTree(root, c.Load2)
	if d.single() {
		exp := c08DRootVisible(db, root, c.Load2.Key, c.Load2)
		del := o2.delivered > 0 && !notFound
		if del != exp {
			j.bad(fmt.Sprintf("%s %d read into a used destination (%s): delivered (RowsAffected %d, error %v)", c.Root, c.Load2.Key, c.Load2.Fin, o2.delivered, o2.err), del, exp)
			return
		}
		if !del {
			r.H("dest.root", "not delivered (marked / filtered root): destination left alone, nothing judged below")
			return
		}
		if d.kind == "map" {
			if fmt.Sprint(d.m["id"]) != fmt.Sprint(c.Load2.Key) {
				j.bad("map destination after the second read: id", d.m["id"], c.Load2.Key)
			}
			return
		}
		recs := d.records()
		if len(recs) != 1 || c08DID(recs[0]) != c.Load2.Key {
			j.bad("record in the destination after the second read", fmt.Sprint(len(recs), " record(s)"), c.Load2.Key)
			return
		}
		r.H("dest.root", fmt.Sprintf("delivered into a struct that held %s", map[bool]string{true: "the SAME key", false: "another / no record"}[oldRootID == c.Load2.Key]))
		j.rec(recs[0], root, tree, "", false)
	} else {
		exp := []uint{}
		for _, id := range c08DIDs(db, "SELECT t.id FROM "+root.Table+" t") {
			if c08DRootVisible(db, root, id, c.Load2) {
				exp = append(exp, id)
			}
		}
		got := []uint{}
		var recs []reflect.Value
		switch {
		case d.kind == "maps":
			for _, m := range d.ms[o2.mapsFrom:] {
				got = append(got, uint(toInt(m["id"])))
			}
		case c.Load2.Fin == "batches":
			recs = o2.batches
		default:
			recs = d.records()
		}
		for _, rec := range recs {
			got = append(got, c08DID(rec))
		}
		if !sameUints(c08DSorted(got), exp) {
			j.bad(fmt.Sprintf("%s rows read into a used %s destination (%s; it held %d rows before)", c.Root, c.Dest, c.Load2.Fin, nBefore), got, exp)
			return
		}
		r.H("dest.root", fmt.Sprintf("slice-like destination re-filled (%d rows)", len(got)))
		for _, rec := range recs {
			j.rec(rec, root, tree, "", true)
		}
	}
	*ties = append(*ties, j.ties...)
}

// Association(rel).Find(&dest) twice into the same destination
func c08DAssoc(r *Result, db *gorm.DB, rng *rand.Rand, seed int64, nOwners int) {
	root := c08DTabs["owner"]
	rel := &root.Rels[rng.Intn(len(root.Rels))]
	key := uint(1 + rng.Intn(nOwners))
	tt := c08DTabs[rel.Target]
	ptrElems := rng.Intn(3) == 0
	var dest reflect.Value
	single := false // (a used STRUCT destination turns its key into a condition and is left alone when no row comes back: nothing to judge)
	switch {
	case single:
		dest = reflect.New(tt.Type)
	case ptrElems:
		dest = reflect.New(reflect.SliceOf(reflect.PtrTo(tt.Type)))
	default:
		dest = reflect.New(reflect.SliceOf(tt.Type))
	}
	un1, un2 := rng.Intn(3) == 0, rng.Intn(4) == 0
	in := map[string]interface{}{"seed": seed, "assoc": rel.Field, "owner": key, "single": single, "unscoped1": un1, "unscoped2": un2}
	find := func(un bool) error {
		h := db.Session(&gorm.Session{})
		if un {
			h = h.Unscoped()
		}
		var own D8Owner
		if err := db.Unscoped().Take(&own, key).Error; err != nil {
			return err
		}
		return h.Model(&own).Association(rel.Field).Find(dest.Interface())
	}
	if err := find(un1); err != nil {
		r.H("dest.error", trunc("assoc: "+err.Error(), 60))
		return
	}
	held, _ := c08DFieldIDs(dest.Elem())
	nm := 0
	for _, id := range c08DIDs(db, "SELECT t.id FROM "+tt.Table+" t") {
		if rng.Intn(2) == 0 {
			live := len(c08DIDs(db, "SELECT t.id FROM "+tt.Table+" t WHERE t.id = ? AND "+tt.live("t"), id)) == 1
			m := c08DMut{Tab: tt.Name, ID: id, How: "restore"}
			if live {
				m.How = []string{"delete", "where", "raw"}[rng.Intn(3)]
			}
			c08DApplyMut(db, m)
			nm++
		}
	}
	if err := find(un2); err != nil {
		r.H("dest.error", trunc("assoc: "+err.Error(), 60))
		return
	}
	exp := c08DVisible(db, rel, key, un2)
	ids, _ := c08DFieldIDs(dest.Elem())
	got := c08DSorted(ids)
	r.Case("dest", fmt.Sprint("assoc", rel.Field, single, ptrElems, un1, un2, nm > 0), nm > 0)
	r.H("dest.assoc", fmt.Sprintf("%s single=%v held=%d", rel.Kind, single, len(held)))
	if single {
		// latitude: Find(&struct) with no row leaves the struct alone
		if len(exp) > 0 && !c08DSubset(got, exp) {
			r.Violate(Violation{Kind: "e2e", Suite: "dest", Input: in, Observed: got, Expected: exp, Note: "Association().Find into a used struct: the record delivered must be a visible one"})
		}
		return
	}
	if !sameUints(got, exp) {
		r.Violate(Violation{Kind: "e2e", Suite: "dest", Input: in, Observed: got, Expected: exp, Note: fmt.Sprintf("Association(%q).Find into a used slice (it held %v): must hold exactly the visible related rows", rel.Field, held)})
	}
}

func c08DWorld(r *Result, seed int64) {
	rng := rand.New(rand.NewSource(seed))
	db, _, sqlDB := OpenRec(&gorm.Config{NowFunc: fixedNowFunc})
	defer sqlDB.Close()
	nOwners, nOrders := c08DSeed(db, rng)
	var ties []c08DTieItem
	for n := 0; n < 8; n++ {
		c := c08DGenCase(rng, seed, n, nOwners, nOrders)
		c08DOne(r, db, rng, &c, &ties)
	}
	c08DAssoc(r, db, rng, seed, nOwners)
	c08DTie(r, seed, ties)
}

// tie: Lean PreloadAssign.preloadField / joinsAssign (Model/PreloadAssign.lean) on (kinds, old content, fetched rows) vs the real field
func c08DTie(r *Result, seed int64, ties []c08DTieItem) {
	if len(ties) == 0 {
		return
	}
	ops := make([][]interface{}, 0, len(ties))
	for _, t := range ties {
		if t.Via == "joins" {
			ops = append(ops, []interface{}{"c08.joinsAssign", t.Old, t.Fetched})
		} else {
			ops = append(ops, []interface{}{"c08.preloadAssign", t.Dest, t.Kind, t.Old, t.Fetched})
		}
	}
	res, err := AskLean(ops)
	if err != nil || len(res) != len(ties) {
		r.Violate(Violation{Kind: "correspondence", Suite: "dest.tie", Note: fmt.Sprint("lean driver: ", err)})
		return
	}
	for i, t := range ties {
		var model []uint
		if json.Unmarshal(res[i], &model) != nil {
			r.Violate(Violation{Kind: "correspondence", Suite: "dest.tie", Input: t, Observed: string(res[i]), Note: "lean driver answer"})
			return
		}
		single := t.Kind == "hasone" || t.Kind == "belongsto"
		r.CorrCompared++
		r.Case("dest.tie", fmt.Sprint(t.Via, t.Dest, t.Kind, t.Old, t.Fetched), len(t.Old) > 0)
		r.H("dest.tie", fmt.Sprintf("%s %s dest=%s old=%s fetched=%s", t.Via, t.Kind, t.Dest, c08DBucket(len(t.Old)), c08DBucket(len(t.Fetched))))
		if single && len(t.Fetched) > 1 {
			continue // which of several candidates a has-one shows depends on the row order of the child query
		}
		if !sameUints(c08DSorted(model), t.Got) {
			r.Violate(Violation{Kind: "correspondence", Suite: "dest.tie", Input: map[string]interface{}{"seed": seed, "item": t}, Observed: t.Got, Expected: model,
				Note: "relation field after the real load vs Lean PreloadAssign.preloadField over the regenerated clean-up arms (preload) / joinsAssign (joins)"})
		}
	}
}

func c08DBucket(n int) string {
	switch {
	case n == 0:
		return "0"
	case n == 1:
		return "1"
	}
	return "2+"
}

// the witness of finding F34 (known_findings.d/C08.json), re-confirmed on every run
func c08ProbeF34(r *Result) {
	db, _, sqlDB := OpenRec(&gorm.Config{NowFunc: fixedNowFunc})
	defer sqlDB.Close()
	c08DSeed(db, rand.New(rand.NewSource(5)))
	for _, t := range []string{"d8_owners", "d8_firms"} {
		c08DExec(db, "UPDATE "+t+" SET deleted_at = NULL")
	}
	c08DExec(db, "UPDATE d8_owners SET boss_id = 1, firm_id = 2 WHERE id = 2")
	var o, fresh D8Owner
	if err := db.Joins("Firm").Joins("Boss").Take(&o, 2).Error; err != nil || o.Firm.ID != 2 || o.Boss == nil {
		r.Note("F34 probe: setup load failed: %v", err)
		return
	}
	db.Delete(&D8Firm{}, 2)
	db.Delete(&D8Owner{}, 1)
	err1 := db.Joins("Firm").Joins("Boss").Take(&o, 2).Error
	err2 := db.Joins("Firm").Joins("Boss").Take(&fresh, 2).Error
	r.Case("dest", "F34-probe", true)
	if err1 != nil || err2 != nil || fresh.Firm.ID != 0 || fresh.Boss != nil {
		r.Violate(Violation{Kind: "e2e", Suite: "dest", Input: map[string]interface{}{"probe": "F34"}, Observed: fmt.Sprint(err1, err2, fresh.Firm.ID, fresh.Boss != nil),
			Expected: "a fresh destination shows neither the soft-deleted firm nor the soft-deleted boss", Note: "F34 probe, fresh destination"})
		return
	}
	if o.Firm.ID != 0 || o.Boss != nil {
		if listed("F34-C08-joins-keep-stale-relation") {
			r.KnownFinding("F34-C08-joins-keep-stale-relation", fmt.Sprintf("witness: owner 2 re-loaded in place with Joins(Firm).Joins(Boss) after both were soft-deleted still shows Firm.ID=%d, Boss set=%v (a fresh destination shows neither)", o.Firm.ID, o.Boss != nil))
		} else {
			r.Violate(Violation{Kind: "e2e", Suite: "dest", Input: map[string]interface{}{"probe": "F34"}, Observed: fmt.Sprint(o.Firm.ID, o.Boss != nil), Expected: "0 false", Note: "F34 probe"})
		}
	} else {
		r.Note("F34 probe: the witness no longer reproduces (Joins into a used struct drops the invisible relation)")
	}
}

func init() {
	register("C08", func(r *Result, rng *rand.Rand, tier string) {
		c08ProbeF34(r)
		n := map[string]int{"quick": 120, "thorough": 1500, "search": 600}[tier]
		for i := 0; i < n && !expired(); i++ {
			c08DWorld(r, rng.Int63())
		}
	})
	replayers["C08/dest"] = func(r *Result, input json.RawMessage) {
		var c struct {
			Seed int64 `json:"seed"`
		}
		if json.Unmarshal(input, &c) == nil && c.Seed != 0 {
			c08DWorld(r, c.Seed)
		} else {
			c08ProbeF34(r)
		}
	}
	replayers["C08/dest.tie"] = replayers["C08/dest"]
}
