package main

// Shared machinery for C02 / C08 / C09: generated condition chains in every form gorm accepts, their
// mirror in the Lean model's input language (Model/Where.lean), a Kleene reference evaluator of the
// PROPERTY's reading ("every unit is indivisible, combined left to right with AND/OR under standard
// precedence"), and a small nullable table on SQLite to run them against.

import (
	"database/sql"
	"fmt"
	"math/rand"
	"sort"
	"strings"

	"gorm.io/gorm"
	"gorm.io/gorm/clause"
)

// ---------------------------------------------------------------------------------------------
// table

type WPlain struct {
	ID uint `gorm:"primaryKey"`
	A  *int
	B  *int
	S  *string
}

type WSoft struct {
	ID        uint `gorm:"primaryKey"`
	A         *int
	B         *int
	S         *string
	DeletedAt gorm.DeletedAt
}

type wRow struct {
	ID      int
	A, B    *int
	S       *string
	Deleted bool
}

func (r wRow) String() string {
	p := func(x *int) string {
		if x == nil {
			return "NULL"
		}
		return fmt.Sprint(*x)
	}
	s := "NULL"
	if r.S != nil {
		s = *r.S
	}
	return fmt.Sprintf("{%d a=%s b=%s s=%s del=%v}", r.ID, p(r.A), p(r.B), s, r.Deleted)
}

var wStrings = []string{"x", "xy", "y", "yx", "zz"}

func genRows(rng *rand.Rand, n int, soft bool) []wRow {
	rows := make([]wRow, 0, n)
	pick := func() *int {
		if rng.Intn(5) == 0 {
			return nil
		}
		v := rng.Intn(4)
		return &v
	}
	for i := 1; i <= n; i++ {
		r := wRow{ID: i, A: pick(), B: pick()}
		if rng.Intn(5) != 0 {
			s := wStrings[rng.Intn(len(wStrings))]
			r.S = &s
		}
		rows = append(rows, r)
	}
	if soft {
		// every live row gets a soft-deleted twin with identical column values
		m := len(rows)
		for i := 0; i < m; i++ {
			t := rows[i]
			t.ID = m + i + 1
			t.Deleted = true
			rows = append(rows, t)
		}
	}
	return rows
}

func seedRows(db *gorm.DB, rows []wRow, soft bool) {
	for _, r := range rows {
		if soft {
			rec := WSoft{ID: uint(r.ID), A: r.A, B: r.B, S: r.S}
			if r.Deleted {
				rec.DeletedAt = gorm.DeletedAt{Time: fixedNow.Add(-3600e9), Valid: true}
			}
			if err := db.Create(&rec).Error; err != nil {
				panic(err)
			}
		} else {
			if err := db.Create(&WPlain{ID: uint(r.ID), A: r.A, B: r.B, S: r.S}).Error; err != nil {
				panic(err)
			}
		}
	}
}

func openW(rows []wRow, soft bool, cfg *gorm.Config) (*gorm.DB, *Recorder, *sql.DB) {
	if cfg == nil {
		cfg = &gorm.Config{}
	}
	cfg.NowFunc = fixedNowFunc
	db, rec, sqlDB := OpenRec(cfg)
	if err := db.AutoMigrate(&WPlain{}, &WSoft{}); err != nil {
		panic(err)
	}
	seedRows(db, rows, soft)
	rec.Reset()
	return db, rec, sqlDB
}

// ---------------------------------------------------------------------------------------------
// three-valued logic

type v3 int

const (
	vF v3 = iota
	vT
	vU
)

func (v v3) String() string { return [...]string{"f", "t", "u"}[v] }
func not3(a v3) v3 {
	switch a {
	case vT:
		return vF
	case vF:
		return vT
	}
	return vU
}
func and3(a, b v3) v3 {
	if a == vF || b == vF {
		return vF
	}
	if a == vT && b == vT {
		return vT
	}
	return vU
}
func or3(a, b v3) v3 {
	if a == vT || b == vT {
		return vT
	}
	if a == vF && b == vF {
		return vF
	}
	return vU
}

// ---------------------------------------------------------------------------------------------
// base predicates

type wPred struct {
	Col  string // a | b | s | id
	Op   string // eq gt gte in like null
	Vals []int
	Pat  string
	Strs []string // Op in on the text column: the non-NULL elements
	Null bool     // Op in: the list holds a NULL element (untyped nil, nil pointer, invalid sql.Null*)
}

func (p wPred) key() string {
	return fmt.Sprintf("%s|%s|%v|%s|%q|%v", p.Col, p.Op, p.Vals, p.Pat, p.Strs, p.Null)
}

type wWorld struct {
	preds []wPred
	idx   map[string]int
}

func newWorld() *wWorld { return &wWorld{idx: map[string]int{}} }
func (w *wWorld) id(p wPred) int {
	k := p.key()
	if i, ok := w.idx[k]; ok {
		return i
	}
	w.idx[k] = len(w.preds)
	w.preds = append(w.preds, p)
	return len(w.preds) - 1
}

func likeMatch(s, pat string) bool {
	s, pat = strings.ToLower(s), strings.ToLower(pat)
	switch {
	case strings.HasPrefix(pat, "%") && strings.HasSuffix(pat, "%") && len(pat) >= 2:
		return strings.Contains(s, pat[1:len(pat)-1])
	case strings.HasSuffix(pat, "%"):
		return strings.HasPrefix(s, pat[:len(pat)-1])
	case strings.HasPrefix(pat, "%"):
		return strings.HasSuffix(s, pat[1:])
	}
	return s == pat
}

func (p wPred) eval(r wRow) v3 {
	b2v := func(b bool) v3 {
		if b {
			return vT
		}
		return vF
	}
	if p.Col == "s" {
		if p.Op == "null" {
			return b2v(r.S == nil)
		}
		if r.S == nil {
			return vU
		}
		if p.Op == "in" {
			// x IN (e1 … en): TRUE on a match, otherwise UNKNOWN when a NULL element is present, otherwise FALSE
			for _, v := range p.Strs {
				if v == *r.S {
					return vT
				}
			}
			if p.Null {
				return vU
			}
			return vF
		}
		return b2v(likeMatch(*r.S, p.Pat))
	}
	var x *int
	switch p.Col {
	case "a":
		x = r.A
	case "b":
		x = r.B
	case "id":
		id := r.ID
		x = &id
	}
	if p.Op == "null" {
		return b2v(x == nil)
	}
	if x == nil {
		return vU
	}
	switch p.Op {
	case "eq":
		return b2v(*x == p.Vals[0])
	case "gt":
		return b2v(*x > p.Vals[0])
	case "gte":
		return b2v(*x >= p.Vals[0])
	case "in":
		for _, v := range p.Vals {
			if v == *x {
				return vT
			}
		}
		if p.Null {
			return vU // a NULL element: no match is UNKNOWN, never FALSE (so NOT IN never selects)
		}
		return vF
	}
	panic("bad pred " + p.key())
}

func (w *wWorld) env(r wRow) []string {
	out := make([]string, len(w.preds))
	for i, p := range w.preds {
		out[i] = p.eval(r).String()
	}
	return out
}

// ---------------------------------------------------------------------------------------------
// Flat (mirror of Model/SqlBool.lean) — only used to describe how SQL reads a RAW string

type wCore struct {
	Kind  string // atom | paren
	ID    int
	Pol   bool
	Text  string
	Items []wItem
}
type wItem struct {
	J string // and | or
	N int
	C wCore
}

func coreJ(c wCore) interface{} {
	if c.Kind == "atom" {
		return map[string]interface{}{"a": []interface{}{c.ID, c.Pol, c.Text}}
	}
	return map[string]interface{}{"p": flatJ(c.Items)}
}
func flatJ(f []wItem) interface{} {
	out := make([]interface{}, 0, len(f))
	for _, it := range f {
		out = append(out, []interface{}{it.J, it.N, coreJ(it.C)})
	}
	return out
}

func evalFlatGo(w *wWorld, f []wItem, r wRow) v3 {
	if len(f) == 0 {
		return vT
	}
	val := func(it wItem) v3 {
		var v v3
		if it.C.Kind == "atom" {
			v = w.preds[it.C.ID].eval(r)
			if !it.C.Pol {
				v = not3(v)
			}
		} else {
			v = evalFlatGo(w, it.C.Items, r)
		}
		if it.N%2 == 1 {
			v = not3(v)
		}
		return v
	}
	acc, cur := vF, val(f[0])
	for _, it := range f[1:] {
		if it.J == "or" {
			acc, cur = or3(acc, cur), val(it)
		} else {
			cur = and3(cur, val(it))
		}
	}
	return or3(acc, cur)
}

func topOr(f []wItem) bool {
	for _, it := range f[1:] {
		if it.J == "or" {
			return true
		}
	}
	return false
}

// ---------------------------------------------------------------------------------------------
// raw strings: text + how SQL reads it + bound args

type wRaw struct {
	Text  string
	Named bool
	Flat  []wItem
	Args  []interface{}
	Weird bool // AND/OR delimited by tab/newline (the shape gorm's detector does not see)
}

type rawGen struct {
	rng   *rand.Rand
	w     *wWorld
	mode  int // 0 literal, 1 '?' args, 2 '@name' args
	weird bool
	args  []interface{}
	nname int
}

func (g *rawGen) leaf() wItem {
	rng := g.rng
	col := []string{"a", "b"}[rng.Intn(2)]
	v := rng.Intn(4)
	val := func(x int) string {
		switch g.mode {
		case 1:
			g.args = append(g.args, x)
			return "?"
		case 2:
			g.nname++
			n := fmt.Sprintf("p%d", g.nname)
			g.args = append(g.args, sql.Named(n, x))
			return "@" + n
		}
		return fmt.Sprint(x)
	}
	switch rng.Intn(9) {
	case 0:
		return wItem{C: wCore{Kind: "atom", ID: g.w.id(wPred{Col: col, Op: "gt", Vals: []int{v}}), Pol: true, Text: col + " > " + val(v)}}
	case 1:
		return wItem{C: wCore{Kind: "atom", ID: g.w.id(wPred{Col: col, Op: "gte", Vals: []int{v}}), Pol: true, Text: col + " >= " + val(v)}}
	case 2:
		return wItem{C: wCore{Kind: "atom", ID: g.w.id(wPred{Col: col, Op: "eq", Vals: []int{v}}), Pol: false, Text: col + " <> " + val(v)}}
	case 3:
		return wItem{C: wCore{Kind: "atom", ID: g.w.id(wPred{Col: col, Op: "null"}), Pol: true, Text: col + " IS NULL"}}
	case 4:
		return wItem{C: wCore{Kind: "atom", ID: g.w.id(wPred{Col: col, Op: "null"}), Pol: false, Text: col + " IS NOT NULL"}}
	case 5:
		v2 := (v + 1 + rng.Intn(2)) % 4
		if g.mode != 0 && rng.Intn(2) == 0 {
			// the slice zoo (c02_slices.go): NULL / pointer / sql.Null* / foreign-typed / duplicate elements, any container type
			lc := col
			if rng.Intn(4) == 0 {
				lc = "s"
			}
			l := genInList(rng, lc, "raw")
			id := g.w.id(l.Pred)
			if g.mode == 1 {
				g.args = append(g.args, l.Val)
				txt := lc + " IN (?)"
				if rng.Intn(2) == 0 {
					txt = lc + " IN ?"
				}
				return wItem{C: wCore{Kind: "atom", ID: id, Pol: true, Text: txt}}
			}
			g.nname++
			n := fmt.Sprintf("p%d", g.nname)
			g.args = append(g.args, sql.Named(n, l.Val))
			return wItem{C: wCore{Kind: "atom", ID: id, Pol: true, Text: lc + " IN @" + n}}
		}
		if g.mode == 0 {
			return wItem{C: wCore{Kind: "atom", ID: g.w.id(wPred{Col: col, Op: "in", Vals: []int{v, v2}}), Pol: true, Text: fmt.Sprintf("%s IN (%d,%d)", col, v, v2)}}
		}
		// slice argument after '(' expands to one placeholder per element
		if g.mode == 1 {
			g.args = append(g.args, []int{v, v2})
			return wItem{C: wCore{Kind: "atom", ID: g.w.id(wPred{Col: col, Op: "in", Vals: []int{v, v2}}), Pol: true, Text: col + " IN (?)"}}
		}
		g.nname++
		n := fmt.Sprintf("p%d", g.nname)
		g.args = append(g.args, sql.Named(n, []int{v, v2}))
		return wItem{C: wCore{Kind: "atom", ID: g.w.id(wPred{Col: col, Op: "in", Vals: []int{v, v2}}), Pol: true, Text: col + " IN @" + n}}
	case 6:
		pat := []string{"x%", "%y", "%z%", "xy"}[rng.Intn(4)]
		if g.mode == 0 {
			return wItem{C: wCore{Kind: "atom", ID: g.w.id(wPred{Col: "s", Op: "like", Pat: pat}), Pol: true, Text: "s LIKE '" + pat + "'"}}
		}
		if g.mode == 1 {
			g.args = append(g.args, pat)
			return wItem{C: wCore{Kind: "atom", ID: g.w.id(wPred{Col: "s", Op: "like", Pat: pat}), Pol: true, Text: "s LIKE ?"}}
		}
		g.nname++
		n := fmt.Sprintf("p%d", g.nname)
		g.args = append(g.args, sql.Named(n, pat))
		return wItem{C: wCore{Kind: "atom", ID: g.w.id(wPred{Col: "s", Op: "like", Pat: pat}), Pol: true, Text: "s LIKE @" + n}}
	default:
		return wItem{C: wCore{Kind: "atom", ID: g.w.id(wPred{Col: col, Op: "eq", Vals: []int{v}}), Pol: true, Text: col + " = " + val(v)}}
	}
}

func (g *rawGen) kw(k string) string {
	rng := g.rng
	switch rng.Intn(3) {
	case 0:
		k = strings.ToLower(k)
	case 1:
		k = strings.ToUpper(k[:1]) + strings.ToLower(k[1:])
	}
	if g.weird {
		ws := []string{"\t", "\n", " \t", "\n "}
		if g.mode == 2 {
			// a tab does not terminate an @name in NamedExpr.Build (its terminator set has \n and space, not \t):
			// keep the keyword delimiters to characters that do
			ws = []string{"\n", "\n ", " \n"}
		}
		return ws[rng.Intn(len(ws))] + k + ws[rng.Intn(len(ws))]
	}
	if rng.Intn(6) == 0 {
		return "  " + k + " "
	}
	return " " + k + " "
}

// flat builds a raw condition of 1..3 items, depth ≤ 2; text is produced alongside
func (g *rawGen) flat(depth int, n int) ([]wItem, string) {
	var items []wItem
	var sb strings.Builder
	for i := 0; i < n; i++ {
		var it wItem
		var txt string
		if depth > 0 && g.rng.Intn(4) == 0 {
			sub, st := g.flat(depth-1, 2+g.rng.Intn(2))
			it = wItem{C: wCore{Kind: "paren", Items: sub}}
			txt = "(" + st + ")"
		} else {
			it = g.leaf()
			txt = it.C.Text
		}
		if g.rng.Intn(7) == 0 {
			it.N = 1
			txt = "NOT " + txt
		}
		it.J = "and"
		if i > 0 {
			if g.rng.Intn(2) == 0 {
				it.J = "or"
			}
			sb.WriteString(g.kw(it.J))
		}
		sb.WriteString(txt)
		items = append(items, it)
	}
	return items, sb.String()
}

// genRaw: allowWeird lets ~1 in 12 multi-item strings use tab/newline around AND/OR
func genRaw(rng *rand.Rand, w *wWorld, allowWeird bool) wRaw {
	g := &rawGen{rng: rng, w: w, mode: rng.Intn(3)}
	n := 1
	switch rng.Intn(5) {
	case 0, 1:
		n = 2
	case 2:
		n = 3
	}
	if n > 1 && allowWeird && rng.Intn(12) == 0 {
		g.weird = true
	}
	f, txt := g.flat(1, n)
	if n > 1 && rng.Intn(8) == 0 {
		// redundant outer parentheses written by the user
		f = []wItem{{J: "and", C: wCore{Kind: "paren", Items: f}}}
		txt = "(" + txt + ")"
	}
	r := wRaw{Text: txt, Flat: f, Args: g.args, Named: g.mode == 2 && len(g.args) > 0, Weird: g.weird}
	if g.mode == 1 && len(g.args) == 0 || g.mode == 2 && len(g.args) == 0 {
		r.Named = false
	}
	return r
}

// out = what clause.Expr.Build / clause.NamedExpr.Build write for this unit taken alone (real code; the expansion
// of placeholders is C01's subject, the combination of units is C02's)
func (r *wRaw) out() string {
	stmt := &gorm.Statement{DB: rawOutDB(), Clauses: map[string]clause.Clause{}}
	if r.Named {
		clause.NamedExpr{SQL: r.Text, Vars: r.Args}.Build(stmt)
	} else {
		clause.Expr{SQL: r.Text, Vars: r.Args}.Build(stmt)
	}
	return stmt.SQL.String()
}

var rawOutDBv *gorm.DB

func rawOutDB() *gorm.DB {
	if rawOutDBv == nil {
		rawOutDBv = dummyDB()
	}
	return rawOutDBv
}

// goDetector is gorm's own test, re-stated (used only to CLASSIFY known-finding patterns)
func goDetector(s string) bool {
	u := strings.ToUpper(s)
	return strings.Contains(u, " AND ") || strings.Contains(u, " OR ")
}

// ---------------------------------------------------------------------------------------------
// atoms and expression trees (mirror of Model/Where.lean `Atom`, `Ex`)

type wAtom struct {
	Col  string      // quoted column text as the sqlite dialector writes it
	Kind string      // eq neq gt gte lt lte like in
	Val  interface{} // "scalar" | "nil" | n (list length)
	ID   int
	Go   clause.Expression
}

func (a wAtom) json() interface{} {
	return map[string]interface{}{"col": a.Col, "kind": a.Kind, "val": a.Val, "id": a.ID}
}

func (a wAtom) pol() bool {
	switch a.Kind {
	case "eq", "gt", "gte", "like", "in":
		return true
	}
	return false
}

type wEx struct {
	Kind string // raw atom and or not
	Raw  *wRaw
	Atom *wAtom
	Kids []*wEx
}

func (e *wEx) json() interface{} {
	switch e.Kind {
	case "raw":
		return map[string]interface{}{"raw": []interface{}{e.Raw.Text, e.Raw.Named, e.Raw.out(), flatJ(e.Raw.Flat)}}
	case "atom":
		return map[string]interface{}{"atom": e.Atom.json()}
	}
	ks := make([]interface{}, 0, len(e.Kids))
	for _, k := range e.Kids {
		ks = append(ks, k.json())
	}
	return map[string]interface{}{e.Kind: ks}
}

// real builds the clause.Expression tree with the concrete Go types (never through clause.And/Or/Not helpers:
// the tree IS the input of Build)
func (e *wEx) real() clause.Expression {
	switch e.Kind {
	case "raw":
		if e.Raw.Named {
			return clause.NamedExpr{SQL: e.Raw.Text, Vars: e.Raw.Args}
		}
		return clause.Expr{SQL: e.Raw.Text, Vars: e.Raw.Args}
	case "atom":
		return e.Atom.Go
	}
	ks := make([]clause.Expression, 0, len(e.Kids))
	for _, k := range e.Kids {
		ks = append(ks, k.real())
	}
	switch e.Kind {
	case "and":
		return clause.AndConditions{Exprs: ks}
	case "or":
		return clause.OrConditions{Exprs: ks}
	}
	return clause.NotConditions{Exprs: ks}
}

func (e *wEx) isOr() bool       { return e.Kind == "or" }
func (e *wEx) isSingleOr() bool { return e.Kind == "or" && len(e.Kids) == 1 }

// genAtom: colStyle 0 = plain string column ("a" → `a`), 1 = clause.Column{Name}, 2 = table-qualified current table
func genAtom(rng *rand.Rand, w *wWorld, table string, colStyle int) *wAtom {
	col := []string{"a", "b"}[rng.Intn(2)]
	var column interface{} = col
	quoted := "`" + col + "`"
	switch colStyle {
	case 1:
		column = clause.Column{Name: col}
	case 2:
		column = clause.Column{Table: clause.CurrentTable, Name: col}
		quoted = "`" + table + "`.`" + col + "`"
	}
	v := rng.Intn(4)
	mk := func(kind string, val interface{}, p wPred, g clause.Expression) *wAtom {
		return &wAtom{Col: quoted, Kind: kind, Val: val, ID: w.id(p), Go: g}
	}
	switch rng.Intn(12) {
	case 0:
		return mk("neq", "scalar", wPred{Col: col, Op: "eq", Vals: []int{v}}, clause.Neq{Column: column, Value: v})
	case 1:
		return mk("gt", "scalar", wPred{Col: col, Op: "gt", Vals: []int{v}}, clause.Gt{Column: column, Value: v})
	case 2:
		return mk("gte", "scalar", wPred{Col: col, Op: "gte", Vals: []int{v}}, clause.Gte{Column: column, Value: v})
	case 3:
		return mk("lt", "scalar", wPred{Col: col, Op: "gte", Vals: []int{v}}, clause.Lt{Column: column, Value: v})
	case 4:
		return mk("lte", "scalar", wPred{Col: col, Op: "gt", Vals: []int{v}}, clause.Lte{Column: column, Value: v})
	case 5:
		return mk("eq", "nil", wPred{Col: col, Op: "null"}, clause.Eq{Column: column, Value: nil})
	case 6:
		return mk("neq", "nil", wPred{Col: col, Op: "null"}, clause.Neq{Column: column, Value: nil})
	case 7:
		if rng.Intn(2) == 0 {
			l := genInList(rng, col, "eq")
			return mk("eq", l.N, l.Pred, clause.Eq{Column: column, Value: l.Val})
		}
		v2 := (v + 1 + rng.Intn(2)) % 4
		return mk("eq", 2, wPred{Col: col, Op: "in", Vals: []int{v, v2}}, clause.Eq{Column: column, Value: []int{v, v2}})
	case 8:
		if rng.Intn(2) == 0 {
			l := genInList(rng, col, "in")
			return mk("in", l.N, l.Pred, clause.IN{Column: column, Values: l.Elems})
		}
		v2 := (v + 1 + rng.Intn(2)) % 4
		return mk("in", 2, wPred{Col: col, Op: "in", Vals: []int{v, v2}}, clause.IN{Column: column, Values: []interface{}{v, v2}})
	case 9:
		return mk("in", 1, wPred{Col: col, Op: "in", Vals: []int{v}}, clause.IN{Column: column, Values: []interface{}{v}})
	case 10:
		pat := []string{"x%", "%y", "%z%"}[rng.Intn(3)]
		q := "`s`"
		var c interface{} = "s"
		if colStyle == 2 {
			q = "`" + table + "`.`s`"
			c = clause.Column{Table: clause.CurrentTable, Name: "s"}
		}
		return &wAtom{Col: q, Kind: "like", Val: "scalar", ID: w.id(wPred{Col: "s", Op: "like", Pat: pat}), Go: clause.Like{Column: c, Value: pat}}
	default:
		return mk("eq", "scalar", wPred{Col: col, Op: "eq", Vals: []int{v}}, clause.Eq{Column: column, Value: v})
	}
}

type exGenCfg struct {
	allowWeird bool // raw strings whose AND/OR gorm's detector cannot see
	allowMixed bool // Not over a list mixing negatable members with OR members (finding F8)
	table      string
}

func genEx(rng *rand.Rand, w *wWorld, depth int, cfg exGenCfg) *wEx {
	k := rng.Intn(10)
	if depth <= 0 && k >= 6 {
		k = rng.Intn(6)
	}
	switch {
	case k < 3:
		r := genRaw(rng, w, cfg.allowWeird)
		return &wEx{Kind: "raw", Raw: &r}
	case k < 6:
		return &wEx{Kind: "atom", Atom: genAtom(rng, w, cfg.table, rng.Intn(3))}
	}
	n := 2 + rng.Intn(2)
	if rng.Intn(8) == 0 {
		n = 1
	}
	kids := make([]*wEx, 0, n)
	for i := 0; i < n; i++ {
		kids = append(kids, genEx(rng, w, depth-1, cfg))
	}
	switch k {
	case 6, 7:
		return &wEx{Kind: "and", Kids: kids}
	case 8:
		return &wEx{Kind: "or", Kids: kids}
	}
	e := &wEx{Kind: "not", Kids: kids}
	if !cfg.allowMixed && notMixed(e) {
		// replace OR members by raw members
		for i, k := range e.Kids {
			if k.isOr() {
				r := genRaw(rng, w, false)
				e.Kids[i] = &wEx{Kind: "raw", Raw: &r}
			}
		}
	}
	return e
}

// notMixed: a Not list with ≥ 2 members, at least one negatable (atom) and at least one OrConditions
func notMixed(e *wEx) bool {
	if e.Kind != "not" || len(e.Kids) < 2 {
		return false
	}
	hasAtom, hasOr := false, false
	for _, k := range e.Kids {
		if k.Kind == "atom" {
			hasAtom = true
		}
		if k.isOr() {
			hasOr = true
		}
	}
	return hasAtom && hasOr
}

// ---------------------------------------------------------------------------------------------
// reference semantics of an expression tree — the PROPERTY's reading, not gorm's algorithm:
//   AndConditions : members combined left to right, a single-member Or is OR-joined, the others AND-joined,
//                   standard precedence, every member indivisible
//   OrConditions  : OR of the members
//   NotConditions : one member → its negation; several members without any OR member → every member false;
//                   with an OR member (an "OR unit") → negation of the whole combination
// `alt` = accept the whole-negation reading for a multi-member AND list none of whose members is a generated
// comparison (gorm writes NOT (a AND b) there; the property's member-wise wording is about map/struct/comparison
// members — latitude documented in DESIGN.md §4 C02).

type semCtx struct {
	w   *wWorld
	r   wRow
	alt bool
}

func (c semCtx) atom(a *wAtom) v3 {
	v := c.w.preds[a.ID].eval(c.r)
	if !a.pol() {
		v = not3(v)
	}
	return v
}

func (c semCtx) ex(e *wEx) v3 {
	switch e.Kind {
	case "raw":
		return evalFlatGo(c.w, e.Raw.Flat, c.r)
	case "atom":
		return c.atom(e.Atom)
	case "and":
		return c.andList(e.Kids)
	case "or":
		v := vF
		for _, k := range e.Kids {
			v = or3(v, c.ex(k))
		}
		return v
	}
	return c.notList(e.Kids)
}

func (c semCtx) andList(kids []*wEx) v3 {
	if len(kids) == 0 {
		return vT
	}
	acc, cur := vF, c.ex(kids[0])
	for _, k := range kids[1:] {
		if k.isSingleOr() {
			acc, cur = or3(acc, cur), c.ex(k)
		} else {
			cur = and3(cur, c.ex(k))
		}
	}
	return or3(acc, cur)
}

func (c semCtx) notList(kids []*wEx) v3 {
	if len(kids) == 1 {
		return not3(c.ex(kids[0]))
	}
	anyOr, anyAtom := false, false
	for _, k := range kids {
		if k.isOr() {
			anyOr = true
		}
		if k.Kind == "atom" {
			anyAtom = true
		}
	}
	if anyOr {
		// OR unit: negate the whole; inside NOT ( … ) every OrConditions member is OR-joined
		acc, cur := vF, c.ex(kids[0])
		for _, k := range kids[1:] {
			if k.isOr() {
				acc, cur = or3(acc, cur), c.ex(k)
			} else {
				cur = and3(cur, c.ex(k))
			}
		}
		return not3(or3(acc, cur))
	}
	if c.alt && !anyAtom {
		v := vT
		for _, k := range kids {
			v = and3(v, c.ex(k))
		}
		return not3(v)
	}
	v := vT
	for _, k := range kids {
		v = and3(v, not3(c.ex(k)))
	}
	return v
}

// ---------------------------------------------------------------------------------------------
// condition forms and chains

type wForm struct {
	Kind   string // raw col fields expr group empty
	Raw    *wRaw
	Atoms  []*wAtom // col: 1 atom; fields: map/struct members (sorted as gorm sorts them)
	Ex     *wEx
	Group  *wChain
	Go     func(db *gorm.DB) (interface{}, []interface{}) // query, args for Where/Not/Or
	GoDesc string
}

type wStep struct {
	Op   string // where not or
	Form *wForm
}

type wChain struct {
	Steps []wStep
}

func (f *wForm) json() interface{} {
	switch f.Kind {
	case "raw":
		return map[string]interface{}{"raw": []interface{}{f.Raw.Text, f.Raw.Named, f.Raw.out(), flatJ(f.Raw.Flat)}}
	case "col":
		return map[string]interface{}{"col": f.Atoms[0].json()}
	case "fields":
		as := make([]interface{}, 0, len(f.Atoms))
		for _, a := range f.Atoms {
			as = append(as, a.json())
		}
		return map[string]interface{}{"fields": as}
	case "expr":
		return map[string]interface{}{"expr": f.Ex.json()}
	case "group":
		return map[string]interface{}{"group": f.Group.json()}
	}
	return "empty"
}

func (c *wChain) json() interface{} {
	out := make([]interface{}, 0, len(c.Steps))
	for _, s := range c.Steps {
		out = append(out, []interface{}{s.Op, s.Form.json()})
	}
	return out
}

func (c *wChain) desc() []string {
	var out []string
	for _, s := range c.Steps {
		out = append(out, s.Op+"("+s.Form.GoDesc+")")
	}
	return out
}

func (c *wChain) apply(db *gorm.DB) *gorm.DB {
	root := db // group arguments are built from the condition-free root handle, never from the chain in progress
	for _, s := range c.Steps {
		q, args := s.Form.Go(root)
		switch s.Op {
		case "where":
			db = db.Where(q, args...)
		case "not":
			db = db.Not(q, args...)
		case "or":
			db = db.Or(q, args...)
		}
	}
	return db
}

type chainGenCfg struct {
	exGenCfg
	noStruct   bool // no struct-valued conditions (they are typed by the model)
	soft       bool
	allowEmpty bool
	leadingOr  bool // allow Or as the first condition call
}

func modelOf(soft bool) interface{} {
	if soft {
		return &WSoft{}
	}
	return &WPlain{}
}

func tableOf(soft bool) string {
	if soft {
		return "w_softs"
	}
	return "w_plains"
}

func genForm(rng *rand.Rand, w *wWorld, depth int, cfg chainGenCfg) *wForm {
	k := rng.Intn(20)
	if cfg.allowEmpty && rng.Intn(10) == 0 {
		return genEmptyForm(rng, cfg.soft)
	}
	if !cfg.noStruct && cfg.table != "" && rng.Intn(12) == 0 {
		// primary-key value(s) given as the condition itself: Where(3) / Where("3") / Where([]int{1, 3}) / Not(ids) / Or(ids)
		// (and, as the last unit, the inline form First/Find/Delete(value, ids)): ONE IN unit on the primary column
		qcol := "`" + cfg.table + "`.`id`"
		if rng.Intn(3) == 0 {
			v := 1 + rng.Intn(12)
			var q interface{} = v
			d := fmt.Sprint(v)
			switch rng.Intn(4) {
			case 0:
				q, d = fmt.Sprint(v), fmt.Sprintf("%q", fmt.Sprint(v))
			case 1:
				q, d = uint(v), fmt.Sprintf("uint(%d)", v)
			case 2:
				q, d = int64(v), fmt.Sprintf("int64(%d)", v)
			}
			a := &wAtom{Col: qcol, Kind: "in", Val: 1, ID: w.id(wPred{Col: "id", Op: "in", Vals: []int{v}})}
			return &wForm{Kind: "col", Atoms: []*wAtom{a}, GoDesc: "pk " + d,
				Go: func(*gorm.DB) (interface{}, []interface{}) { return q, nil }}
		}
		l := genInList(rng, "id", "pk")
		a := &wAtom{Col: qcol, Kind: "in", Val: l.N, ID: w.id(l.Pred)}
		return &wForm{Kind: "col", Atoms: []*wAtom{a}, GoDesc: "pk " + l.Desc,
			Go: func(*gorm.DB) (interface{}, []interface{}) { return l.Val, nil }}
	}
	switch {
	case k < 6: // raw string (literal / ? / @name)
		r := genRaw(rng, w, cfg.allowWeird)
		rc := r
		return &wForm{Kind: "raw", Raw: &rc, GoDesc: fmt.Sprintf("%q %v", r.Text, r.Args),
			Go: func(*gorm.DB) (interface{}, []interface{}) { return rc.Text, rc.Args }}
	case k < 8: // ("col", v)
		col := []string{"a", "b"}[rng.Intn(2)]
		v := rng.Intn(4)
		switch rng.Intn(4) {
		case 0:
			a := &wAtom{Col: "`" + col + "`", Kind: "eq", Val: "nil", ID: w.id(wPred{Col: col, Op: "null"})}
			return &wForm{Kind: "col", Atoms: []*wAtom{a}, GoDesc: fmt.Sprintf("%q, nil", col),
				Go: func(*gorm.DB) (interface{}, []interface{}) { return col, []interface{}{nil} }}
		case 1:
			v2 := (v + 1 + rng.Intn(2)) % 4
			a := &wAtom{Col: "`" + col + "`", Kind: "eq", Val: 2, ID: w.id(wPred{Col: col, Op: "in", Vals: []int{v, v2}})}
			return &wForm{Kind: "col", Atoms: []*wAtom{a}, GoDesc: fmt.Sprintf("%q, []int{%d,%d}", col, v, v2),
				Go: func(*gorm.DB) (interface{}, []interface{}) { return col, []interface{}{[]int{v, v2}} }}
		case 2:
			// ("col", slice) with the slice zoo; ("col", nil-ish) = IS NULL
			lc := []string{"a", "b", "s"}[rng.Intn(3)]
			if rng.Intn(4) == 0 {
				nv, nd := genNilish(rng, lc)
				a := &wAtom{Col: "`" + lc + "`", Kind: "eq", Val: "nil", ID: w.id(wPred{Col: lc, Op: "null"})}
				return &wForm{Kind: "col", Atoms: []*wAtom{a}, GoDesc: fmt.Sprintf("%q, %s", lc, nd),
					Go: func(*gorm.DB) (interface{}, []interface{}) { return lc, []interface{}{nv} }}
			}
			l := genInList(rng, lc, "eq")
			a := &wAtom{Col: "`" + lc + "`", Kind: "eq", Val: l.N, ID: w.id(l.Pred)}
			return &wForm{Kind: "col", Atoms: []*wAtom{a}, GoDesc: fmt.Sprintf("%q, %s", lc, l.Desc),
				Go: func(*gorm.DB) (interface{}, []interface{}) { return lc, []interface{}{l.Val} }}
		}
		a := &wAtom{Col: "`" + col + "`", Kind: "eq", Val: "scalar", ID: w.id(wPred{Col: col, Op: "eq", Vals: []int{v}})}
		return &wForm{Kind: "col", Atoms: []*wAtom{a}, GoDesc: fmt.Sprintf("%q, %d", col, v),
			Go: func(*gorm.DB) (interface{}, []interface{}) { return col, []interface{}{v} }}
	case k < 11: // map[string]interface{}
		m := map[string]interface{}{}
		var atoms []*wAtom
		var descs []string
		cols := []string{"a", "b", "s"}
		rng.Shuffle(len(cols), func(i, j int) { cols[i], cols[j] = cols[j], cols[i] })
		n := 1 + rng.Intn(3)
		cols = cols[:n]
		sort.Strings(cols)
		for _, col := range cols {
			q := "`" + col + "`"
			if col == "s" {
				if k := rng.Intn(4); k == 0 {
					nv, nd := genNilish(rng, col)
					m[col] = nv
					descs = append(descs, col+":"+nd)
					atoms = append(atoms, &wAtom{Col: q, Kind: "eq", Val: "nil", ID: w.id(wPred{Col: "s", Op: "null"})})
				} else if k == 1 {
					l := genInList(rng, col, "map")
					m[col] = l.Val
					descs = append(descs, col+":"+l.Desc)
					atoms = append(atoms, &wAtom{Col: q, Kind: "in", Val: l.N, ID: w.id(l.Pred)})
				} else {
					s := wStrings[rng.Intn(len(wStrings))]
					m[col] = s
					descs = append(descs, fmt.Sprintf("%s:%q", col, s))
					atoms = append(atoms, &wAtom{Col: q, Kind: "eq", Val: "scalar", ID: w.id(wPred{Col: "s", Op: "like", Pat: s})})
				}
				continue
			}
			v := rng.Intn(4)
			switch rng.Intn(5) {
			case 0:
				nv, nd := genNilish(rng, col)
				m[col] = nv
				descs = append(descs, col+":"+nd)
				atoms = append(atoms, &wAtom{Col: q, Kind: "eq", Val: "nil", ID: w.id(wPred{Col: col, Op: "null"})})
			case 1:
				v2 := (v + 1 + rng.Intn(2)) % 4
				m[col] = []int{v, v2}
				descs = append(descs, fmt.Sprintf("%s:[]int{%d,%d}", col, v, v2))
				atoms = append(atoms, &wAtom{Col: q, Kind: "in", Val: 2, ID: w.id(wPred{Col: col, Op: "in", Vals: []int{v, v2}})})
			case 2:
				// the slice zoo: NULL / pointer / sql.Null* / foreign-typed / duplicate elements, any container type
				l := genInList(rng, col, "map")
				m[col] = l.Val
				descs = append(descs, col+":"+l.Desc)
				atoms = append(atoms, &wAtom{Col: q, Kind: "in", Val: l.N, ID: w.id(l.Pred)})
			default:
				m[col] = v
				descs = append(descs, fmt.Sprintf("%s:%d", col, v))
				atoms = append(atoms, &wAtom{Col: q, Kind: "eq", Val: "scalar", ID: w.id(wPred{Col: col, Op: "eq", Vals: []int{v}})})
			}
		}
		return &wForm{Kind: "fields", Atoms: atoms, GoDesc: "map{" + strings.Join(descs, " ") + "}",
			Go: func(*gorm.DB) (interface{}, []interface{}) { return m, nil }}
	case k < 14 && !cfg.noStruct: // struct (zero fields add nothing)
		tbl := tableOf(cfg.soft)
		var a, b *int
		var atoms []*wAtom
		if rng.Intn(3) > 0 {
			v := rng.Intn(4)
			a = &v
			atoms = append(atoms, &wAtom{Col: "`" + tbl + "`.`a`", Kind: "eq", Val: "scalar", ID: w.id(wPred{Col: "a", Op: "eq", Vals: []int{v}})})
		}
		if rng.Intn(3) > 0 || a == nil {
			v := rng.Intn(4)
			b = &v
			atoms = append(atoms, &wAtom{Col: "`" + tbl + "`.`b`", Kind: "eq", Val: "scalar", ID: w.id(wPred{Col: "b", Op: "eq", Vals: []int{v}})})
		}
		var q interface{}
		if cfg.soft {
			q = WSoft{A: a, B: b}
		} else {
			q = WPlain{A: a, B: b}
		}
		return &wForm{Kind: "fields", Atoms: atoms, GoDesc: fmt.Sprintf("struct{A:%v B:%v}", pi(a), pi(b)),
			Go: func(*gorm.DB) (interface{}, []interface{}) { return q, nil }}
	case k < 17 || depth <= 0: // clause.Expression
		e := genEx(rng, w, 2, cfg.exGenCfg)
		if !cfg.leadingOr && e.Kind == "and" && len(e.Kids) > 1 && e.Kids[0].isSingleOr() {
			// an And list that STARTS with a single-member Or is the expression-level spelling of a chain whose first
			// condition call is Or (when it is the statement's only unit Where.Build swaps that Or behind the next member
			// and OR-joins it): outside the property's quantifier ("first condition call is not Or"), judged by C08 only
			e.Kids[0] = e.Kids[0].Kids[0]
		}
		return &wForm{Kind: "expr", Ex: e, GoDesc: "expr " + canon(e.json()),
			Go: func(*gorm.DB) (interface{}, []interface{}) { return e.real(), nil }}
	default: // group: db.Where(db.Where(..).Or(..))
		sub := genChainN(rng, w, depth-1, 1+rng.Intn(3), chainGenCfg{exGenCfg: cfg.exGenCfg, soft: cfg.soft})
		return &wForm{Kind: "group", Group: sub, GoDesc: "group" + fmt.Sprint(sub.desc()),
			Go: func(db *gorm.DB) (interface{}, []interface{}) {
				// a FRESH sub handle per use: BuildCondition rewrites its argument's expression slice in place
				return sub.apply(freshHandle(db)), nil
			}}
	}
}

// freshHandle: what `db` is in user code like db.Where(db.Where(a).Or(b)) — a handle with an EMPTY statement of its own.
// (Session{NewDB} alone still points at the caller's statement until the next chain call; Model(nil) forces the copy.)
func freshHandle(db *gorm.DB) *gorm.DB {
	return db.Session(&gorm.Session{NewDB: true}).Model(nil)
}

func pi(p *int) string {
	if p == nil {
		return "nil"
	}
	return fmt.Sprint(*p)
}

// genEmptyForm: the condition forms that must add no condition at all
func genEmptyForm(rng *rand.Rand, soft bool) *wForm {
	mk := func(desc string, q interface{}, args ...interface{}) *wForm {
		return &wForm{Kind: "empty", GoDesc: desc, Go: func(*gorm.DB) (interface{}, []interface{}) { return q, args }}
	}
	switch rng.Intn(8) {
	case 0:
		return mk(`""`, "")
	case 1:
		return mk("map[string]interface{}{}", map[string]interface{}{})
	case 2:
		if soft {
			return mk("WSoft{}", WSoft{})
		}
		return mk("WPlain{}", WPlain{})
	case 3:
		if soft {
			return mk("&WSoft{}", &WSoft{})
		}
		return mk("&WPlain{}", &WPlain{})
	case 4:
		return mk("[]int{}", []int{})
	case 5:
		return mk("map[string]string{}", map[string]string{})
	case 6:
		return mk("nil", nil)
	default:
		return &wForm{Kind: "empty", GoDesc: "group(no conditions)", Go: func(db *gorm.DB) (interface{}, []interface{}) {
			return freshHandle(db), nil
		}}
	}
}

func genChainN(rng *rand.Rand, w *wWorld, depth, n int, cfg chainGenCfg) *wChain {
	c := &wChain{}
	for i := 0; i < n; i++ {
		op := []string{"where", "where", "not", "or", "or"}[rng.Intn(5)]
		f := genForm(rng, w, depth, cfg)
		if op == "or" && !cfg.leadingOr && !c.hasCond() {
			op = "where"
		}
		if op == "not" && !cfg.allowMixed && f.notMixed() {
			op = "where"
		}
		c.Steps = append(c.Steps, wStep{Op: op, Form: f})
	}
	return c
}

func (c *wChain) hasCond() bool {
	for _, s := range c.Steps {
		if s.Form.Kind != "empty" {
			return true
		}
	}
	return false
}

// members of the unit as gorm's Not will see them (for the F8 pattern and the `alt` latitude)
func (f *wForm) notMixed() bool {
	switch f.Kind {
	case "expr":
		if f.Ex.Kind == "and" {
			return notMixed(&wEx{Kind: "not", Kids: f.Ex.Kids})
		}
	case "group":
		hasAtomish, hasOr := false, false
		n := 0
		for _, s := range f.Group.Steps {
			if s.Form.Kind == "empty" {
				continue
			}
			n++
			if s.Op == "or" && n > 1 {
				hasOr = true
			} else if s.Op == "where" && (s.Form.Kind == "col" || s.Form.Kind == "fields" && len(s.Form.Atoms) == 1 ||
				s.Form.Kind == "expr" && s.Form.Ex.Kind == "atom") {
				hasAtomish = true
			}
		}
		return hasAtomish && hasOr
	}
	return false
}

// ---------------------------------------------------------------------------------------------
// reference semantics of a chain

func (c semCtx) formVal(f *wForm) (v3, bool) {
	switch f.Kind {
	case "raw":
		return evalFlatGo(c.w, f.Raw.Flat, c.r), true
	case "col":
		return c.atom(f.Atoms[0]), true
	case "fields":
		if len(f.Atoms) == 0 {
			return vT, false
		}
		v := vT
		for _, a := range f.Atoms {
			v = and3(v, c.atom(a))
		}
		return v, true
	case "expr":
		return c.ex(f.Ex), true
	case "group":
		return c.chain(f.Group)
	case "const":
		return constVal, true
	}
	return vT, false
}

// formNot: the value of Not(form)
func (c semCtx) formNot(f *wForm) (v3, bool) {
	switch f.Kind {
	case "fields":
		if len(f.Atoms) == 0 {
			return vT, false
		}
		v := vT
		for _, a := range f.Atoms {
			v = and3(v, not3(c.atom(a))) // the documented `name <> ? AND age <> ?` reading
		}
		return v, true
	case "expr":
		if f.Ex.Kind == "and" && len(f.Ex.Kids) > 1 {
			return c.notList(f.Ex.Kids), true // an AND-combined unit
		}
		return not3(c.ex(f.Ex)), true
	case "group":
		// a group holding a single unit IS that unit
		var eff []wStep
		for _, s := range f.Group.Steps {
			if _, ok := c.formVal(s.Form); ok {
				eff = append(eff, s)
			}
		}
		if len(eff) == 1 && eff[0].Op != "not" {
			return c.formNot(eff[0].Form)
		}
		// members = the group's own units
		var vals []v3
		var ors []bool
		anyAtomish := false
		for _, s := range f.Group.Steps {
			var v v3
			var ok bool
			if s.Op == "not" {
				v, ok = c.formNot(s.Form)
			} else {
				v, ok = c.formVal(s.Form)
			}
			if !ok {
				continue
			}
			vals = append(vals, v)
			ors = append(ors, s.Op == "or" && len(vals) > 1)
			// a member that is ONE generated comparison (gorm negates such a member through NegationBuild)
			if s.Op == "where" && (s.Form.Kind == "col" || s.Form.Kind == "fields" && len(s.Form.Atoms) == 1 || s.Form.Kind == "expr" && s.Form.Ex.Kind == "atom") {
				anyAtomish = true
			}
		}
		if len(vals) == 0 {
			return vT, false
		}
		if len(vals) == 1 {
			return not3(vals[0]), true
		}
		anyOr := false
		for _, o := range ors {
			anyOr = anyOr || o
		}
		if anyOr || (c.alt && !anyAtomish) {
			acc, cur := vF, vals[0]
			for i := 1; i < len(vals); i++ {
				if ors[i] {
					acc, cur = or3(acc, cur), vals[i]
				} else {
					cur = and3(cur, vals[i])
				}
			}
			return not3(or3(acc, cur)), true
		}
		v := vT
		for _, x := range vals {
			v = and3(v, not3(x))
		}
		return v, true
	}
	v, ok := c.formVal(f)
	return not3(v), ok
}

// chainThen: the chain followed by one more AND unit of value `last` (the model value's primary key)
func (c semCtx) chainThen(ch *wChain, last v3) (v3, bool) {
	extra := &wForm{Kind: "const"}
	constVal = last
	ch2 := &wChain{Steps: append(append([]wStep{}, ch.Steps...), wStep{Op: "where", Form: extra})}
	return c.chain(ch2)
}

var constVal v3

// chain: units combined left to right, AND for Where/Not, OR for Or, standard precedence
func (c semCtx) chain(ch *wChain) (v3, bool) {
	first := true
	acc, cur := vF, vT
	for _, s := range ch.Steps {
		var v v3
		var ok bool
		if s.Op == "not" {
			v, ok = c.formNot(s.Form)
		} else {
			v, ok = c.formVal(s.Form)
		}
		if !ok {
			continue
		}
		if first {
			cur, first = v, false
			continue
		}
		if s.Op == "or" {
			acc, cur = or3(acc, cur), v
		} else {
			cur = and3(cur, v)
		}
	}
	if first {
		return vT, false
	}
	return or3(acc, cur), true
}
