package main

// Correspondence + end-to-end harness.  Usage:
//   harness -prop C15 -tier quick|thorough -seed N -out result.json [-replay file]
// It drives the REAL gorm code in /repo (module replace) and the Lean model driver on the
// same generated inputs and diffs canonical outputs (kind "correspondence"), and runs the
// property-level oracle on the real code alone (kind "e2e").

import (
	"encoding/json"
	"flag"
	"fmt"
	"math/rand"
	"os"
	"sort"
	"time"
)

type suiteFn func(r *Result, rng *rand.Rand, tier string)

var suites = map[string][]suiteFn{}

func register(prop string, f suiteFn) { suites[prop] = append(suites[prop], f) }

// replayers re-execute one stored input on the real code: key = property + "/" + suite
var replayers = map[string]func(r *Result, input json.RawMessage){}

var deadline time.Time

func expired() bool { return !deadline.IsZero() && time.Now().After(deadline) }

// known findings listed in /verif/known_findings.json with status "finding"
var listedFindings = map[string]bool{}

func listed(id string) bool { return listedFindings[id] }

func loadKnown(path string) {
	b, err := os.ReadFile(path)
	if err != nil {
		return
	}
	var doc struct {
		Findings []struct {
			Property string `json:"property"`
			ID       string `json:"id"`
			Status   string `json:"status"`
		} `json:"findings"`
	}
	if json.Unmarshal(b, &doc) != nil {
		return
	}
	for _, f := range doc.Findings {
		if f.Status == "finding" {
			listedFindings[f.ID] = true
		}
	}
}

func main() {
	prop := flag.String("prop", "", "property id")
	tier := flag.String("tier", "quick", "quick|thorough")
	seed := flag.Int64("seed", 1, "PRNG seed")
	out := flag.String("out", "", "result file")
	drv := flag.String("driver", "", "lean driver path")
	replays := flag.String("replays", "/verif/replays", "replay dir")
	known := flag.String("known", "/verif/known_findings.json", "known findings file")
	budget := flag.Int("budget", 0, "soft time budget in seconds (suites stop generating when it expires)")
	replay := flag.String("replay", "", "replay file to re-execute")
	flag.Parse()
	loadKnown(*known)
	if *budget > 0 {
		deadline = time.Now().Add(time.Duration(*budget) * time.Second)
	}
	if *drv != "" {
		driverPath = *drv
	}
	if *replay != "" {
		res := NewResult(*prop, "replay", *seed, os.TempDir())
		b, err := os.ReadFile(*replay)
		if err != nil {
			fmt.Fprintln(os.Stderr, err)
			os.Exit(2)
		}
		var v struct {
			Suite string          `json:"suite"`
			Input json.RawMessage `json:"input"`
		}
		if err := json.Unmarshal(b, &v); err != nil {
			fmt.Fprintln(os.Stderr, err)
			os.Exit(2)
		}
		f, ok := replayers[*prop+"/"+v.Suite]
		if !ok {
			fmt.Fprintf(os.Stderr, "no replayer for %s/%s\n", *prop, v.Suite)
			os.Exit(2)
		}
		f(res, v.Input)
		if *out != "" {
			_ = res.Write(*out)
		}
		fmt.Printf("replay %s/%s: violations=%d known=%d\n", *prop, v.Suite, len(res.Violations), len(res.Known))
		return
	}
	if *drv != "" {
		driverPath = *drv
	}
	fs, ok := suites[*prop]
	if !ok {
		var ks []string
		for k := range suites {
			ks = append(ks, k)
		}
		sort.Strings(ks)
		fmt.Fprintf(os.Stderr, "unknown property %q (have %v)\n", *prop, ks)
		os.Exit(2)
	}
	res := NewResult(*prop, *tier, *seed, *replays)
	for i, f := range fs {
		rng := rand.New(rand.NewSource(*seed*1000003 + int64(i)))
		f(res, rng, *tier)
	}
	if *out != "" {
		if err := res.Write(*out); err != nil {
			fmt.Fprintln(os.Stderr, err)
			os.Exit(2)
		}
	}
	fmt.Printf("harness %s %s seed=%d evaluations=%d nontrivial=%d violations=%d known=%d\n",
		*prop, *tier, *seed, res.Evaluations, res.Nontrivial, len(res.Violations), len(res.Known))
}
