package main

import (
	"math/rand"

	"gorm.io/gorm"
)

// ---- family N: unusual-but-legal COLUMN ORDER and NULLABILITY ----------------------------------------------------
//
// Every model declares its nullable columns FIRST (a free-text note, the soft-delete column, nullable foreign keys) and its
// NOT NULL columns (the row number n, the key) LAST; in most rows most of the leading columns are NULL, in some rows every
// nullable column is NULL ("all-NULL-but-key").  The columns an association join selects for the joined relation come in
// declaration order, so whatever decides "did the LEFT JOIN match a row for this relation?" sees NULLs first.  The to-one
// relations are pointers (Group, Card, Boss, Card.Vendor); nested joins Card.Vendor / Boss.Group / Boss.Card give two
// pointer levels; Vendor.Parts / Boss.Items / Boss.Tags give has-many and many2many preloads BELOW a joined relation.

type C11NGroup struct {
	Note      *string
	DeletedAt gorm.DeletedAt
	Rank      *int
	N         int
	ID        uint `gorm:"primaryKey;autoIncrement:false"`
}

func (C11NGroup) TableName() string { return "c11n_groups" }

type C11NPart struct {
	Note      *string
	DeletedAt gorm.DeletedAt
	VendorID  *uint
	N         int
	ID        uint `gorm:"primaryKey;autoIncrement:false"`
}

func (C11NPart) TableName() string { return "c11n_parts" }

type C11NVendor struct {
	Alias     *string
	Rating    *int64
	DeletedAt gorm.DeletedAt
	N         int
	ID        uint       `gorm:"primaryKey;autoIncrement:false"`
	Parts     []C11NPart `gorm:"foreignKey:VendorID;references:ID"`
}

func (C11NVendor) TableName() string { return "c11n_vendors" }

type C11NCard struct {
	Note      *string
	DeletedAt gorm.DeletedAt
	VendorID  *uint
	Vendor    *C11NVendor `gorm:"foreignKey:VendorID;references:ID"`
	OwnerID   *uint
	N         int
	ID        uint `gorm:"primaryKey;autoIncrement:false"`
}

func (C11NCard) TableName() string { return "c11n_cards" }

type C11NItem struct {
	Note      *string
	DeletedAt gorm.DeletedAt
	OwnerID   *uint
	Owner     *C11NOwner `gorm:"foreignKey:OwnerID;references:ID"`
	N         int
	ID        uint `gorm:"primaryKey;autoIncrement:false"`
}

func (C11NItem) TableName() string { return "c11n_items" }

type C11NTag struct {
	Note      *string
	DeletedAt gorm.DeletedAt
	N         int
	ID        uint `gorm:"primaryKey;autoIncrement:false"`
}

func (C11NTag) TableName() string { return "c11n_tags" }

type C11NOwner struct {
	Nick      *string
	DeletedAt gorm.DeletedAt
	GroupID   *uint
	Group     *C11NGroup `gorm:"foreignKey:GroupID;references:ID"`
	BossID    *uint
	Boss      *C11NOwner  `gorm:"foreignKey:BossID;references:ID"`
	Staff     []C11NOwner `gorm:"foreignKey:BossID;references:ID"`
	Card      *C11NCard   `gorm:"foreignKey:OwnerID;references:ID"`
	Items     []C11NItem  `gorm:"foreignKey:OwnerID;references:ID"`
	Tags      []C11NTag   `gorm:"many2many:c11n_owner_tags;foreignKey:ID;joinForeignKey:OwnerID;references:ID;joinReferences:TagID"`
	N         int
	ID        uint `gorm:"primaryKey;autoIncrement:false"`
}

func (C11NOwner) TableName() string { return "c11n_owners" }

func init() {
	nOwnerRels := []c11RelD{
		{Field: "Group", Kind: "belongs_to", Child: "c11n_groups", Single: true, On: c11Pairs("group_id", "id")},
		{Field: "Boss", Kind: "self_belongs_to", Child: "c11n_owners", Single: true, On: c11Pairs("boss_id", "id")},
		{Field: "Staff", Kind: "self_has_many", Child: "c11n_owners", On: c11Pairs("id", "boss_id")},
		{Field: "Card", Kind: "has_one", Child: "c11n_cards", Single: true, On: c11Pairs("id", "owner_id")},
		{Field: "Items", Kind: "has_many", Child: "c11n_items", On: c11Pairs("id", "owner_id")},
		{Field: "Tags", Kind: "many2many", Child: "c11n_tags", Via: "c11n_owner_tags", ViaP: c11Pairs("id", "owner_id"), ViaC: c11Pairs("tag_id", "id")},
	}
	famN := &c11Family{Name: "N", Tables: []*c11Table{
		{Name: "c11n_owners", Model: &C11NOwner{}, Cols: []c11ColT{{"nick", "str", true}, {"group_id", "uint", true}, {"boss_id", "uint", true}, {"id", "uint", false}}, Rels: nOwnerRels},
		{Name: "c11n_groups", Model: &C11NGroup{}, Cols: []c11ColT{{"note", "str", true}, {"rank", "int", true}, {"id", "uint", false}}},
		{Name: "c11n_cards", Model: &C11NCard{}, Cols: []c11ColT{{"note", "str", true}, {"vendor_id", "uint", true}, {"owner_id", "uint", true}, {"id", "uint", false}},
			Rels: []c11RelD{{Field: "Vendor", Kind: "belongs_to", Child: "c11n_vendors", Single: true, On: c11Pairs("vendor_id", "id")}}},
		{Name: "c11n_vendors", Model: &C11NVendor{}, Cols: []c11ColT{{"alias", "str", true}, {"rating", "int", true}, {"id", "uint", false}},
			Rels: []c11RelD{{Field: "Parts", Kind: "has_many", Child: "c11n_parts", On: c11Pairs("id", "vendor_id")}}},
		{Name: "c11n_parts", Model: &C11NPart{}, Cols: []c11ColT{{"note", "str", true}, {"vendor_id", "uint", true}, {"id", "uint", false}}},
		{Name: "c11n_items", Model: &C11NItem{}, Cols: []c11ColT{{"note", "str", true}, {"owner_id", "uint", true}, {"id", "uint", false}},
			Rels: []c11RelD{{Field: "Owner", Kind: "belongs_to", Child: "c11n_owners", Single: true, On: c11Pairs("owner_id", "id")}}},
		{Name: "c11n_tags", Model: &C11NTag{}, Cols: []c11ColT{{"note", "str", true}, {"id", "uint", false}}},
		{Name: "c11n_owner_tags", Cols: []c11ColT{{"owner_id", "uint", false}, {"tag_id", "uint", false}}},
	}}
	famN.Gen = func(rng *rand.Rand, mode int) c11World {
		w := c11World{Family: "N", Tables: map[string][]c11Row{}}
		add := func(t string, r c11Row) { w.Tables[t] = append(w.Tables[t], r) }
		// mode 1: every nullable non-key column of every row is NULL; otherwise NULL half of the time
		note := func() interface{} {
			if mode == 1 || rng.Intn(2) == 0 {
				return nil
			}
			return []string{"", "x", "NULL", "0", "nil"}[rng.Intn(5)]
		}
		num := func() interface{} {
			if mode == 1 || rng.Intn(2) == 0 {
				return nil
			}
			return rng.Intn(3)
		}
		ids := func(k int, pool []int) []int {
			perm := rng.Perm(len(pool))
			var out []int
			for i := 0; i < k && i < len(pool); i++ {
				out = append(out, pool[perm[i]])
			}
			return out
		}
		fk := func(keys []int, pNull, pOrphan int) interface{} {
			x := rng.Intn(100)
			if x < pNull {
				return nil
			}
			if x < pNull+pOrphan || len(keys) == 0 {
				return 90 + rng.Intn(5)
			}
			return keys[rng.Intn(len(keys))]
		}
		groups := ids(1+rng.Intn(3), []int{1, 2, 3, 7})
		for i, g := range groups {
			add("c11n_groups", c11Row{"id": g, "n": i + 1, "deleted_at": c11Del(rng, 4), "note": note(), "rank": num()})
		}
		vendors := ids(1+rng.Intn(3), []int{1, 2, 5, 8})
		for i, v := range vendors {
			add("c11n_vendors", c11Row{"id": v, "n": i + 1, "deleted_at": c11Del(rng, 4), "alias": note(), "rating": num()})
		}
		for i, k := 0, rng.Intn(6); i < k; i++ {
			add("c11n_parts", c11Row{"id": 20 + i, "n": i + 1, "deleted_at": c11Del(rng, 3), "note": note(), "vendor_id": fk(vendors, 10, 15)})
		}
		owners := ids(2+rng.Intn(4), []int{1, 2, 3, 4, 11, 12})
		for i, o := range owners {
			add("c11n_owners", c11Row{"id": o, "n": i + 1, "deleted_at": c11Del(rng, 5), "nick": note(), "group_id": fk(groups, 25, 15), "boss_id": fk(owners, 30, 10)})
		}
		n := 0
		for _, o := range owners {
			if rng.Intn(3) > 0 {
				n++
				add("c11n_cards", c11Row{"id": 30 + n, "n": n, "owner_id": o, "deleted_at": false, "note": note(), "vendor_id": fk(vendors, 25, 15)})
			}
			for rng.Intn(4) == 0 {
				n++
				add("c11n_cards", c11Row{"id": 30 + n, "n": n, "owner_id": o, "deleted_at": true, "note": note(), "vendor_id": fk(vendors, 25, 15)})
			}
		}
		if rng.Intn(2) == 0 {
			n++
			add("c11n_cards", c11Row{"id": 30 + n, "n": n, "owner_id": fk(nil, 50, 50), "deleted_at": false, "note": note(), "vendor_id": fk(vendors, 25, 15)})
		}
		for i, k := 0, rng.Intn(8); i < k; i++ {
			add("c11n_items", c11Row{"id": 50 + i, "n": i + 1, "owner_id": fk(owners, 10, 15), "deleted_at": c11Del(rng, 3), "note": note()})
		}
		tags := ids(1+rng.Intn(4), []int{1, 2, 3, 9})
		for i, t := range tags {
			add("c11n_tags", c11Row{"id": t, "n": i + 1, "deleted_at": c11Del(rng, 4), "note": note()})
		}
		for _, o := range owners {
			for _, t := range tags {
				if rng.Intn(3) == 0 {
					add("c11n_owner_tags", c11Row{"owner_id": o, "tag_id": t})
				}
			}
		}
		if rng.Intn(2) == 0 {
			add("c11n_owner_tags", c11Row{"owner_id": 95, "tag_id": tags[0]})
			add("c11n_owner_tags", c11Row{"owner_id": owners[0], "tag_id": 77})
		}
		return w
	}
	c11Families["N"] = famN
}
