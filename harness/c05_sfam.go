package main

// C05, second model family ("s"): every association kind with the conflict clause gorm gives its upsert
// (callbacks/associations.go onConflictOption / saveAssociation), on tables that refuse bad values by themselves:
//
//	Owner   belongs-to            auto-increment key  -> INSERT … ON CONFLICT DO NOTHING RETURNING `id`   (query path)
//	Cover   has-one               auto-increment key  -> ON CONFLICT (`id`) DO UPDATE SET fk           RETURNING
//	Lines   has-many              auto-increment key  -> ON CONFLICT (`id`) DO UPDATE SET fk           RETURNING
//	Marks   polymorphic has-many  auto-increment key  -> DO UPDATE SET target_type, target_id           RETURNING
//	Badges  many2many             auto-increment key  -> elements DO NOTHING RETURNING, join rows DO NOTHING (exec)
//	Seals   many2many             application key     -> elements DO NOTHING (exec path: RowsAffected / LastInsertId)
//
// with FullSaveAssociations every upsert becomes DO UPDATE SET <all columns>.  Every text column carries a CHECK
// constraint (value 'c05bad' is refused) and Line.Text is NOT NULL behind a pointer: the "poison" mechanism puts the
// refused value into the i-th record of the operation's graph, so the failing statement is a genuine one, raised by
// SQLite while the statement is stepped.

import (
	"fmt"
	"math/rand"

	"gorm.io/gorm"
	"gorm.io/gorm/clause"
)

const c05Bad = "c05bad"

type C05SOwner struct {
	ID   uint   `gorm:"primaryKey"`
	Name string `gorm:"check:name <> 'c05bad'"`
}

type C05SBadge struct {
	ID    uint   `gorm:"primaryKey"`
	Label string `gorm:"check:label <> 'c05bad'"`
}

type C05SSeal struct {
	Code  string `gorm:"primaryKey"`
	Label string `gorm:"check:label <> 'c05bad'"`
}

type C05SLine struct {
	ID        uint `gorm:"primaryKey"`
	C05SDocID uint
	Text      *string `gorm:"not null"`
}

type C05SCover struct {
	ID        uint `gorm:"primaryKey"`
	C05SDocID uint
	Title     string `gorm:"check:title <> 'c05bad'"`
}

type C05SMark struct {
	ID         uint   `gorm:"primaryKey"`
	Note       string `gorm:"check:note <> 'c05bad'"`
	TargetID   uint
	TargetType string
}

type C05SDoc struct {
	ID      uint   `gorm:"primaryKey"`
	Title   string `gorm:"check:title <> 'c05bad'"`
	Rev     int
	OwnerID *uint
	Owner   *C05SOwner  `gorm:"foreignKey:OwnerID"`
	Lines   []C05SLine  `gorm:"foreignKey:C05SDocID"`
	Cover   *C05SCover  `gorm:"foreignKey:C05SDocID"`
	Badges  []C05SBadge `gorm:"many2many:c05s_doc_badges"`
	Seals   []C05SSeal  `gorm:"many2many:c05s_doc_seals"`
	Marks   []C05SMark  `gorm:"polymorphic:Target"`
}

var c05SModels = []interface{}{&C05SOwner{}, &C05SBadge{}, &C05SSeal{}, &C05SLine{}, &C05SCover{}, &C05SMark{}, &C05SDoc{}}

// c05TablesOf: tables of the models plus their many2many join tables (as gorm names them)
func c05TablesOf(db *gorm.DB, models []interface{}) []string {
	var out []string
	seen := map[string]bool{}
	add := func(t string) {
		if !seen[t] {
			seen[t] = true
			out = append(out, t)
		}
	}
	for _, m := range models {
		stmt := &gorm.Statement{DB: db}
		if err := stmt.Parse(m); err != nil {
			panic(err)
		}
		add(stmt.Schema.Table)
		for _, rel := range stmt.Schema.Relationships.Many2Many {
			if rel.JoinTable != nil {
				add(rel.JoinTable.Table)
			}
		}
	}
	return out
}

func c05SStr(s string) *string { return &s }

// c05SGenDoc: a fresh graph; min = every relation present (used where the operation needs them)
func c05SGenDoc(rng *rand.Rand, tag string, full bool) *C05SDoc {
	d := &C05SDoc{Title: "d" + tag, Rev: 1 + rng.Intn(5)}
	if full || rng.Intn(3) > 0 {
		d.Owner = &C05SOwner{Name: "w" + tag}
	}
	n := rng.Intn(3)
	if full && n == 0 {
		n = 1
	}
	for i := 0; i < n; i++ {
		d.Lines = append(d.Lines, C05SLine{Text: c05SStr(fmt.Sprint("l", tag, i))})
	}
	if full || rng.Intn(2) == 0 {
		d.Cover = &C05SCover{Title: "c" + tag}
	}
	n = rng.Intn(3)
	if full && n == 0 {
		n = 2
	}
	for i := 0; i < n; i++ {
		d.Badges = append(d.Badges, C05SBadge{Label: fmt.Sprint("b", tag, i)})
	}
	for i, n := 0, rng.Intn(3); i < n; i++ {
		d.Seals = append(d.Seals, C05SSeal{Code: fmt.Sprint("s", tag, i), Label: "seal"})
	}
	for i, n := 0, rng.Intn(2); i < n; i++ {
		d.Marks = append(d.Marks, C05SMark{Note: fmt.Sprint("m", tag, i)})
	}
	return d
}

// c05PoisonAt: index (in c05SFlatten order) of the record that gets the refused value in this run; -1 = none
var c05PoisonAt = -1
var c05PoisonApplied bool

// c05SPoison puts the refused value into the idx-th record of the graphs; false = the graphs have fewer records
func c05SPoison(idx int, docs ...*C05SDoc) bool {
	if idx < 0 {
		return false
	}
	i := 0
	hit := func() bool {
		i++
		if i-1 == idx {
			c05PoisonApplied = true
			return true
		}
		return false
	}
	for _, d := range docs {
		if d.Title != "" && hit() {
			d.Title = c05Bad
			return true
		}
		if d.Owner != nil && hit() {
			d.Owner.Name = c05Bad
			return true
		}
		for k := range d.Lines {
			if hit() {
				d.Lines[k].Text = nil // NOT NULL
				return true
			}
		}
		if d.Cover != nil && hit() {
			d.Cover.Title = c05Bad
			return true
		}
		for k := range d.Badges {
			if hit() {
				d.Badges[k].Label = c05Bad
				return true
			}
		}
		for k := range d.Seals {
			if hit() {
				d.Seals[k].Label = c05Bad
				return true
			}
		}
		for k := range d.Marks {
			if hit() {
				d.Marks[k].Note = c05Bad
				return true
			}
		}
	}
	return false
}

func c05SSeed(db *gorm.DB, rng *rand.Rand) {
	for i := 0; i < 3; i++ {
		d := c05SGenDoc(rng, fmt.Sprint("s", i), i == 0)
		if err := db.Create(d).Error; err != nil {
			panic(err)
		}
	}
}

func c05SLoadFirst(db *gorm.DB) *C05SDoc {
	var d C05SDoc
	if err := db.Preload(clause.Associations).Order("id").First(&d).Error; err != nil {
		panic(err)
	}
	return &d
}

// c05SExisting: a graph whose association values name rows that exist already (keys set), mixed with new ones:
// the conflict clauses really take their conflict branch (DO NOTHING answers no row for them, DO UPDATE rewrites)
func c05SExisting(first *C05SDoc, rng *rand.Rand, tag string) *C05SDoc {
	d := c05SGenDoc(rng, tag, false)
	if first.Owner != nil && rng.Intn(2) == 0 {
		o := *first.Owner
		d.Owner = &o
	}
	for _, b := range first.Badges {
		if rng.Intn(2) == 0 {
			d.Badges = append([]C05SBadge{b}, d.Badges...)
		} else {
			d.Badges = append(d.Badges, b)
		}
	}
	for _, s := range first.Seals {
		d.Seals = append(d.Seals, s)
	}
	for _, l := range first.Lines { // has-many element that belongs to another parent: DO UPDATE moves it
		if rng.Intn(2) == 0 {
			t := *l.Text
			d.Lines = append(d.Lines, C05SLine{ID: l.ID, C05SDocID: l.C05SDocID, Text: &t})
		}
	}
	return d
}

var c05SOpNames = map[string]bool{}

func c05SOps() []c05Op {
	sess := func(db *gorm.DB, fsa bool) *gorm.DB {
		if fsa {
			return db.Session(&gorm.Session{FullSaveAssociations: true})
		}
		return db
	}
	mk := func(name string, setup func(db *gorm.DB, rng *rand.Rand) func(*gorm.DB) error) c05Op {
		c05SOpNames[name] = true
		return c05Op{Name: name, Setup: setup}
	}
	return []c05Op{
		mk("SCreate", func(db *gorm.DB, rng *rand.Rand) func(*gorm.DB) error {
			gs, fsa := rng.Int63(), rng.Intn(2) == 0
			return func(db *gorm.DB) error {
				d := c05SGenDoc(rand.New(rand.NewSource(gs)), "a", false)
				c05SPoison(c05PoisonAt, d)
				return sess(db, fsa).Create(d).Error
			}
		}),
		mk("SCreateExistingAssoc", func(db *gorm.DB, rng *rand.Rand) func(*gorm.DB) error {
			first := c05SLoadFirst(db)
			gs, fsa := rng.Int63(), rng.Intn(2) == 0
			return func(db *gorm.DB) error {
				d := c05SExisting(first, rand.New(rand.NewSource(gs)), "e")
				c05SPoison(c05PoisonAt, d)
				return sess(db, fsa).Create(d).Error
			}
		}),
		mk("SCreateSlice", func(db *gorm.DB, rng *rand.Rand) func(*gorm.DB) error {
			gs, fsa, ptr := rng.Int63(), rng.Intn(3) == 0, rng.Intn(2) == 0
			return func(db *gorm.DB) error {
				r := rand.New(rand.NewSource(gs))
				a, b, c := c05SGenDoc(r, "f", false), c05SGenDoc(r, "g", false), c05SGenDoc(r, "h", false)
				c05SPoison(c05PoisonAt, a, b, c)
				if ptr {
					ds := []*C05SDoc{a, b, c}
					return sess(db, fsa).Create(&ds).Error
				}
				ds := []C05SDoc{*a, *b, *c}
				return sess(db, fsa).Create(&ds).Error
			}
		}),
		mk("SCreateInBatches", func(db *gorm.DB, rng *rand.Rand) func(*gorm.DB) error {
			gs, n, size := rng.Int63(), 3+rng.Intn(3), 1+rng.Intn(2)
			return func(db *gorm.DB) error {
				r := rand.New(rand.NewSource(gs))
				var ps []*C05SDoc
				for i := 0; i < n; i++ {
					ps = append(ps, c05SGenDoc(r, fmt.Sprint("i", i), false))
				}
				c05SPoison(c05PoisonAt, ps...)
				ds := make([]C05SDoc, n)
				for i := range ps {
					ds[i] = *ps[i]
				}
				c05NoteBatches(n, size)
				return db.CreateInBatches(&ds, size).Error
			}
		}),
		mk("SCreateDoNothing", func(db *gorm.DB, rng *rand.Rand) func(*gorm.DB) error {
			// user-supplied ON CONFLICT DO NOTHING on the main INSERT; one element's key exists already
			first := c05SLoadFirst(db)
			gs, pos := rng.Int63(), rng.Intn(3)
			return func(db *gorm.DB) error {
				r := rand.New(rand.NewSource(gs))
				a, b := c05SGenDoc(r, "j", false), c05SGenDoc(r, "k", false)
				ex := &C05SDoc{ID: first.ID, Title: "clash", Rev: 9}
				ps := [][]*C05SDoc{{ex, a, b}, {a, ex, b}, {a, b, ex}}[pos]
				c05SPoison(c05PoisonAt, ps...)
				ds := make([]C05SDoc, len(ps))
				for i := range ps {
					ds[i] = *ps[i]
				}
				return db.Clauses(clause.OnConflict{DoNothing: true}).Create(&ds).Error
			}
		}),
		mk("SCreateUpsertAll", func(db *gorm.DB, rng *rand.Rand) func(*gorm.DB) error {
			first := c05SLoadFirst(db)
			gs := rng.Int63()
			return func(db *gorm.DB) error {
				r := rand.New(rand.NewSource(gs))
				d := c05SGenDoc(r, "u", false)
				d.ID = first.ID
				n := c05SGenDoc(r, "v", false)
				c05SPoison(c05PoisonAt, d, n)
				ds := []*C05SDoc{d, n}
				return db.Clauses(clause.OnConflict{UpdateAll: true}).Create(&ds).Error
			}
		}),
		mk("SSaveExisting", func(db *gorm.DB, rng *rand.Rand) func(*gorm.DB) error {
			first := c05SLoadFirst(db)
			gs, fsa := rng.Int63(), rng.Intn(2) == 0
			return func(db *gorm.DB) error {
				r := rand.New(rand.NewSource(gs))
				d := c05SClone(first)
				d.Title += "x"
				d.Owner = &C05SOwner{Name: "neww"}
				d.OwnerID = nil
				d.Lines = append(d.Lines, C05SLine{Text: c05SStr("newline")})
				d.Badges = append(d.Badges, C05SBadge{Label: fmt.Sprint("nb", r.Intn(9))})
				d.Marks = append(d.Marks, C05SMark{Note: "newmark"})
				c05SPoison(c05PoisonAt, d)
				return sess(db, fsa).Save(d).Error
			}
		}),
		mk("SSaveNew", func(db *gorm.DB, rng *rand.Rand) func(*gorm.DB) error {
			gs, fsa := rng.Int63(), rng.Intn(2) == 0
			return func(db *gorm.DB) error {
				d := c05SGenDoc(rand.New(rand.NewSource(gs)), "n", true)
				c05SPoison(c05PoisonAt, d)
				return sess(db, fsa).Save(d).Error
			}
		}),
		mk("SUpdatesAssoc", func(db *gorm.DB, rng *rand.Rand) func(*gorm.DB) error {
			first := c05SLoadFirst(db)
			gs, fsa := rng.Int63(), rng.Intn(2) == 0
			return func(db *gorm.DB) error {
				up := c05SGenDoc(rand.New(rand.NewSource(gs)), "p", true)
				up.Title = "" // zero: not updated
				c05SPoison(c05PoisonAt, up)
				return sess(db, fsa).Model(&C05SDoc{ID: first.ID}).Updates(*up).Error
			}
		}),
		mk("SUpdateReturning", func(db *gorm.DB, rng *rand.Rand) func(*gorm.DB) error {
			all := rng.Intn(2) == 0
			return func(db *gorm.DB) error {
				var got []C05SDoc
				ret := clause.Returning{}
				if !all {
					ret.Columns = []clause.Column{{Name: "id"}, {Name: "rev"}}
				}
				return db.Model(&got).Clauses(ret).Where("rev > ?", 0).Update("rev", gorm.Expr("rev + ?", 10)).Error
			}
		}),
		mk("SDeleteReturning", func(db *gorm.DB, rng *rand.Rand) func(*gorm.DB) error {
			return func(db *gorm.DB) error {
				var got []C05SLine
				return db.Clauses(clause.Returning{}).Where("id > ?", 0).Delete(&got).Error
			}
		}),
		mk("SDeleteSelect", func(db *gorm.DB, rng *rand.Rand) func(*gorm.DB) error {
			first := c05SLoadFirst(db)
			allAssoc := rng.Intn(2) == 0
			return func(db *gorm.DB) error {
				d := C05SDoc{ID: first.ID}
				if allAssoc {
					return db.Select(clause.Associations).Delete(&d).Error
				}
				return db.Select("Lines", "Cover", "Badges", "Seals", "Marks").Delete(&d).Error
			}
		}),
	}
}

// c05SClone: deep copy (gorm writes keys into the elements it saves)
func c05SClone(d *C05SDoc) *C05SDoc {
	c := *d
	if d.OwnerID != nil {
		v := *d.OwnerID
		c.OwnerID = &v
	}
	if d.Owner != nil {
		o := *d.Owner
		c.Owner = &o
	}
	if d.Cover != nil {
		o := *d.Cover
		c.Cover = &o
	}
	c.Lines = nil
	for _, l := range d.Lines {
		if l.Text != nil {
			t := *l.Text
			l.Text = &t
		}
		c.Lines = append(c.Lines, l)
	}
	c.Badges = append([]C05SBadge(nil), d.Badges...)
	c.Seals = append([]C05SSeal(nil), d.Seals...)
	c.Marks = append([]C05SMark(nil), d.Marks...)
	return &c
}
