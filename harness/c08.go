package main

// C08: soft-deleted records are invisible and untouched unless Unscoped is requested.
//
// suites
//   chains   (correspondence + e2e) the C02 chain machinery on the soft-delete model, leading Or allowed: WHERE text and
//            SQLite-vs-sqlEval ties (c02.go), and for every finisher: no returned / counted / updated / re-deleted row is a
//            soft-deleted one; every live row has a soft-deleted TWIN with identical column values, so any leak shows
//   paths    (e2e) the other read paths on generated chains: First/Last/Take, Rows+ScanRows, Scan, FindInBatches,
//            Unscoped reads (marked rows visible again), Unscoped Delete (physical), repeated Delete (no change)
//   rel      (e2e) relations with soft-deleted children: Preload (has-many, has-one, many2many, nested), Joins /
//            InnerJoins (with and without an ON handle), Association().Find / Count, with and without Unscoped

import (
	"encoding/json"
	"fmt"
	"math/rand"
	"sort"

	"gorm.io/gorm"
	"gorm.io/gorm/clause"
)

// ---------------------------------------------------------------------------------------------
// relation models, every one soft-deletable

type SParent struct {
	ID        uint `gorm:"primaryKey"`
	Name      string
	Kids      []SKid
	Pet       *SPet
	Langs     []SLang `gorm:"many2many:s_parent_langs"`
	DeletedAt gorm.DeletedAt
}

type SKid struct {
	ID        uint `gorm:"primaryKey"`
	SParentID uint
	V         int
	Toys      []SToy
	DeletedAt gorm.DeletedAt
}

type SToy struct {
	ID        uint `gorm:"primaryKey"`
	SKidID    uint
	DeletedAt gorm.DeletedAt
}

type SPet struct {
	ID        uint `gorm:"primaryKey"`
	SParentID uint
	Name      string
	Tags      []STag // (round 3) a level below the has-one: reachable through a JOINED relation (c08_tree.go)
	DeletedAt gorm.DeletedAt
}

type SLang struct {
	ID        uint `gorm:"primaryKey"`
	Name      string
	DeletedAt gorm.DeletedAt
}

// belongs-to side
type SOrder struct {
	ID        uint `gorm:"primaryKey"`
	SParentID uint
	SParent   *SParent
}

type c08World struct {
	Parents     []uint
	DeadParents map[uint]bool
	Kids        map[uint][]uint // parent -> kid ids (all)
	DeadKids    map[uint]bool
	Toys        map[uint][]uint // kid -> toys
	DeadToys    map[uint]bool
	Pet         map[uint]uint // parent -> pet id
	DeadPets    map[uint]bool
	Langs       map[uint][]uint
	DeadLangs   map[uint]bool
	Orders      map[uint]uint // order -> parent
}

func c08Seed(db *gorm.DB, rng *rand.Rand) *c08World {
	if err := db.AutoMigrate(&SParent{}, &SKid{}, &SToy{}, &SPet{}, &SLang{}, &SOrder{}); err != nil {
		panic(err)
	}
	w := &c08World{DeadParents: map[uint]bool{}, Kids: map[uint][]uint{}, DeadKids: map[uint]bool{}, Toys: map[uint][]uint{}, DeadToys: map[uint]bool{},
		Pet: map[uint]uint{}, DeadPets: map[uint]bool{}, Langs: map[uint][]uint{}, DeadLangs: map[uint]bool{}, Orders: map[uint]uint{}}
	dead := func() gorm.DeletedAt {
		if rng.Intn(3) == 0 {
			return gorm.DeletedAt{Time: fixedNow.Add(-7200e9), Valid: true}
		}
		return gorm.DeletedAt{}
	}
	nl := 2 + rng.Intn(3)
	for i := 1; i <= nl; i++ {
		l := SLang{ID: uint(i), Name: fmt.Sprintf("l%d", i), DeletedAt: dead()}
		db.Create(&l)
		w.DeadLangs[l.ID] = l.DeletedAt.Valid
	}
	kid, toy, pet, ord := uint(1), uint(1), uint(1), uint(1)
	np := 2 + rng.Intn(4)
	for i := 1; i <= np; i++ {
		p := SParent{ID: uint(i), Name: fmt.Sprintf("p%d", i), DeletedAt: dead()}
		db.Omit(clause.Associations).Create(&p)
		w.Parents = append(w.Parents, p.ID)
		w.DeadParents[p.ID] = p.DeletedAt.Valid
		for j, n := 0, rng.Intn(4); j < n; j++ {
			k := SKid{ID: kid, SParentID: p.ID, V: rng.Intn(5), DeletedAt: dead()}
			db.Omit(clause.Associations).Create(&k)
			w.Kids[p.ID] = append(w.Kids[p.ID], k.ID)
			w.DeadKids[k.ID] = k.DeletedAt.Valid
			for t, m := 0, rng.Intn(3); t < m; t++ {
				ty := SToy{ID: toy, SKidID: k.ID, DeletedAt: dead()}
				db.Create(&ty)
				w.Toys[k.ID] = append(w.Toys[k.ID], ty.ID)
				w.DeadToys[ty.ID] = ty.DeletedAt.Valid
				toy++
			}
			kid++
		}
		if rng.Intn(4) > 0 {
			pt := SPet{ID: pet, SParentID: p.ID, Name: fmt.Sprintf("pet%d", pet), DeletedAt: dead()}
			db.Create(&pt)
			w.Pet[p.ID] = pt.ID
			w.DeadPets[pt.ID] = pt.DeletedAt.Valid
			pet++
		}
		for l := 1; l <= nl; l++ {
			if rng.Intn(2) == 0 {
				db.Exec("INSERT INTO s_parent_langs (s_parent_id, s_lang_id) VALUES (?, ?)", p.ID, l)
				w.Langs[p.ID] = append(w.Langs[p.ID], uint(l))
			}
		}
		o := SOrder{ID: ord, SParentID: p.ID}
		db.Omit(clause.Associations).Create(&o)
		w.Orders[o.ID] = p.ID
		ord++
	}
	return w
}

func uintsLive(ids []uint, dead map[uint]bool, unscoped bool) []uint {
	out := []uint{}
	for _, id := range ids {
		if unscoped || !dead[id] {
			out = append(out, id)
		}
	}
	sort.Slice(out, func(i, j int) bool { return out[i] < out[j] })
	return out
}

func sameUints(a, b []uint) bool {
	if len(a) != len(b) {
		return false
	}
	for i := range a {
		if a[i] != b[i] {
			return false
		}
	}
	return true
}

func init() {
	// ---------------------------------------------------------------- chains on the soft-delete model
	register("C08", func(r *Result, rng *rand.Rand, tier string) {
		n := map[string]int{"quick": 350, "thorough": 5000, "search": 4000}[tier]
		c02Chains(r, rng, n, true)
	})

	// ---------------------------------------------------------------- other read paths, Unscoped, repeated delete
	register("C08", func(r *Result, rng *rand.Rand, tier string) {
		n := map[string]int{"quick": 200, "thorough": 3000, "search": 2000}[tier]
		var seeds []int64
		for i := 0; i < n; i++ {
			seeds = append(seeds, rng.Int63())
		}
		// one driver run per batch of chains
		for lo := 0; lo < len(seeds) && !expired(); lo += 250 {
			hi := lo + 250
			if hi > len(seeds) {
				hi = len(seeds)
			}
			var ask [][]interface{}
			for _, sd := range seeds[lo:hi] {
				_, _, _, _, a := c08PathGen(sd)
				ask = append(ask, a)
			}
			if res, err := AskLean(ask); err == nil {
				for i, sd := range seeds[lo:hi] {
					c08PathCache[sd] = res[i]
				}
			}
			for _, sd := range seeds[lo:hi] {
				if expired() {
					break
				}
				c08Paths(r, sd)
				delete(c08PathCache, sd)
			}
		}
	})

	// ---------------------------------------------------------------- relations
	register("C08", func(r *Result, rng *rand.Rand, tier string) {
		n := map[string]int{"quick": 60, "thorough": 1000, "search": 600}[tier]
		for i := 0; i < n && !expired(); i++ {
			seed := rng.Int63()
			c08Rel(r, seed)
		}
	})
}

var errC08Stop = fmt.Errorf("c08: stop batches")

type c08PathCase struct {
	Seed  int64    `json:"seed"`
	Chain []string `json:"chain"`
	Path  string   `json:"path"`
}

var c08PathCache = map[int64]json.RawMessage{}

func c08PathGen(seed int64) (*rand.Rand, *wWorld, []wRow, *wChain, []interface{}) {
	rng := rand.New(rand.NewSource(seed))
	w := newWorld()
	rows := genRows(rng, 5+rng.Intn(4), true)
	cfg := chainGenCfg{exGenCfg: exGenCfg{table: "w_softs"}, soft: true, allowEmpty: true, leadingOr: true}
	ch := genChainN(rng, w, 1, rng.Intn(4), cfg)
	ask := []interface{}{"chain.render", ch.json(), []interface{}{false,
		map[string]interface{}{"col": "`w_softs`.`deleted_at`", "kind": "eq", "val": "nil", "id": w.id(wPred{Col: "deleted", Op: "null"})}}, []interface{}{}}
	return rng, w, rows, ch, ask
}

func c08Paths(r *Result, seed int64) {
	rng, w, rows, ch, ask := c08PathGen(seed)
	_ = w
	db, _, sqlDB := openW(rows, true, nil)
	defer sqlDB.Close()
	deleted := map[int]bool{}
	for _, x := range rows {
		if x.Deleted {
			deleted[x.ID] = true
		}
	}
	// classification of the listed finding by the Lean model's predicate on this chain
	sound := true
	raw, cached := c08PathCache[seed]
	if !cached {
		if res, err := AskLean([][]interface{}{ask}); err == nil {
			raw, cached = res[0], true
		}
	}
	if cached {
		var out struct {
			Sound bool `json:"sound"`
		}
		if json.Unmarshal(raw, &out) == nil {
			sound = out.Sound
		}
	}
	leak := func(path string, ids []int, err error) {
		r.Case("paths", fmt.Sprint(path, ch.desc()), len(ch.Steps) > 0)
		r.H("paths.path", path)
		if err != nil {
			r.H("paths.error", trunc(err.Error(), 40))
			return
		}
		for _, id := range ids {
			if deleted[id] {
				if !sound && listed("F2-C08-or-raw-regroup") {
					r.KnownFinding("F2-C08-or-raw-regroup", "a soft-deleted row is returned by "+path)
					return
				}
				r.Violate(Violation{Kind: "e2e", Suite: "paths", Input: c08PathCase{seed, ch.desc(), path}, Observed: ids,
					Expected: "no soft-deleted id among the results", Note: fmt.Sprintf("soft-deleted ids: %v", keysOf(deleted))})
				return
			}
		}
	}
	base := db.Session(&gorm.Session{})
	// First / Last / Take
	for _, p := range []string{"first", "last", "take"} {
		var o WSoft
		var err error
		switch p {
		case "first":
			err = ch.apply(base).First(&o).Error
		case "last":
			err = ch.apply(base).Last(&o).Error
		default:
			err = ch.apply(base).Take(&o).Error
		}
		if err == gorm.ErrRecordNotFound {
			leak(p, nil, nil)
		} else {
			leak(p, []int{int(o.ID)}, err)
		}
	}
	// Rows + ScanRows
	{
		ids := []int{}
		rowsIt, err := ch.apply(base.Model(&WSoft{})).Rows()
		if err == nil {
			for rowsIt.Next() {
				var o WSoft
				if e := db.ScanRows(rowsIt, &o); e == nil {
					ids = append(ids, int(o.ID))
				}
			}
			rowsIt.Close()
		}
		leak("rows", ids, err)
	}
	// Scan into a plain struct
	{
		type lite struct{ ID int }
		var out []lite
		err := ch.apply(base.Model(&WSoft{})).Scan(&out).Error
		ids := []int{}
		for _, o := range out {
			ids = append(ids, o.ID)
		}
		leak("scan", ids, err)
	}
	// FindInBatches
	{
		ids := []int{}
		var batch []WSoft
		nb := 0
		err := ch.apply(base).FindInBatches(&batch, 2, func(tx *gorm.DB, n int) error {
			for _, o := range batch {
				ids = append(ids, int(o.ID))
			}
			if nb++; nb > 40 {
				// the key cursor is AND-ed to the last OR-run only, so a chain with an Or never advances (C15's subject,
				// finding F7): stop the loop, visibility is still judged on what was delivered
				return errC08Stop
			}
			return nil
		}).Error
		if err == errC08Stop {
			r.H("paths.batches", "stopped-after-40-batches")
			err = nil
		}
		leak("batches", ids, err)
	}
	// a NESTED statement issued from inside an Unscoped batched read runs on a fresh statement: it is scoped again
	if !ch.hasCond() {
		var batch []WSoft
		nestedVisible := int64(-1)
		ch.apply(base.Unscoped()).FindInBatches(&batch, 3, func(tx *gorm.DB, n int) error {
			tx.Model(&WSoft{}).Count(&nestedVisible)
			return errC08Stop
		})
		r.Case("paths", "nested-in-unscoped-batches", true)
		if nestedVisible >= 0 && int(nestedVisible) != len(rows)/2 {
			r.Violate(Violation{Kind: "e2e", Suite: "paths", Input: c08PathCase{seed, ch.desc(), "nested-in-unscoped-batches"},
				Observed: nestedVisible, Expected: len(rows) / 2,
				Note: "a plain (not Unscoped) count issued through the tx handed to the FindInBatches callback of an Unscoped read must not see soft-deleted rows"})
		}
	}
	// Find into maps
	{
		var out []map[string]interface{}
		err := ch.apply(base.Model(&WSoft{})).Find(&out).Error
		ids := []int{}
		for _, o := range out {
			ids = append(ids, toInt(o["id"]))
		}
		leak("findmaps", ids, err)
	}
	// Unscoped: marked rows are visible again (the chain without conditions must return every row)
	if !ch.hasCond() {
		var out []WSoft
		if err := ch.apply(base.Unscoped()).Find(&out).Error; err == nil && len(out) != len(rows) {
			r.Violate(Violation{Kind: "e2e", Suite: "paths", Input: c08PathCase{seed, ch.desc(), "unscoped-find"}, Observed: len(out), Expected: len(rows),
				Note: "Unscoped must make the marked rows visible again"})
		}
		r.Case("paths", "unscoped-find", true)
	}
	// Delete marks instead of removing; repeated Delete changes nothing; Unscoped Delete removes physically
	{
		target := rows[rng.Intn(len(rows)/2)].ID // a live row
		tx := base.Begin()
		before := tableDump(tx, true)
		res := tx.Delete(&WSoft{}, target)
		var phys int64
		tx.Session(&gorm.Session{NewDB: true}).Unscoped().Model(&WSoft{}).Count(&phys)
		var vis int64
		tx.Session(&gorm.Session{NewDB: true}).Model(&WSoft{}).Where("id = ?", target).Count(&vis)
		r.Case("paths", "delete-marks", true)
		if res.Error != nil || int(phys) != len(rows) || vis != 0 || res.RowsAffected != 1 {
			r.Violate(Violation{Kind: "e2e", Suite: "paths", Input: c08PathCase{seed, nil, "delete-marks"},
				Observed: map[string]interface{}{"err": fmt.Sprint(res.Error), "physical_rows": phys, "still_visible": vis, "rows_affected": res.RowsAffected},
				Expected: fmt.Sprintf("row %d marked, %d physical rows, invisible", target, len(rows))})
		}
		mid := tableDump(tx, true)
		res2 := tx.Delete(&WSoft{}, target)
		r.Case("paths", "delete-again", true)
		if res2.Error != nil || res2.RowsAffected != 0 || tableDump(tx, true) != mid {
			r.Violate(Violation{Kind: "e2e", Suite: "paths", Input: c08PathCase{seed, nil, "delete-again"},
				Observed: map[string]interface{}{"err": fmt.Sprint(res2.Error), "rows_affected": res2.RowsAffected, "changed": tableDump(tx, true) != mid},
				Expected: "a repeated delete touches nothing (the marked row is invisible)"})
		}
		// a delete aimed at an already soft-deleted twin changes nothing either
		twin := target + len(rows)/2
		res3 := tx.Delete(&WSoft{}, twin)
		if res3.Error != nil || res3.RowsAffected != 0 {
			r.Violate(Violation{Kind: "e2e", Suite: "paths", Input: c08PathCase{seed, nil, "delete-marked-twin"},
				Observed: map[string]interface{}{"err": fmt.Sprint(res3.Error), "rows_affected": res3.RowsAffected}, Expected: "0 rows affected"})
		}
		res4 := tx.Unscoped().Delete(&WSoft{}, twin)
		tx.Session(&gorm.Session{NewDB: true}).Unscoped().Model(&WSoft{}).Count(&phys)
		r.Case("paths", "unscoped-delete", true)
		if res4.Error != nil || res4.RowsAffected != 1 || int(phys) != len(rows)-1 {
			r.Violate(Violation{Kind: "e2e", Suite: "paths", Input: c08PathCase{seed, nil, "unscoped-delete"},
				Observed: map[string]interface{}{"err": fmt.Sprint(res4.Error), "rows_affected": res4.RowsAffected, "physical_rows": phys},
				Expected: "Unscoped Delete removes the row physically"})
		}
		tx.Rollback()
		_ = before
	}
}

func keysOf(m map[int]bool) []int {
	out := []int{}
	for k := range m {
		out = append(out, k)
	}
	sort.Ints(out)
	return out
}

func toInt(v interface{}) int {
	switch x := v.(type) {
	case int64:
		return int(x)
	case int:
		return x
	case uint:
		return int(x)
	case uint64:
		return int(x)
	case float64:
		return int(x)
	}
	return -1
}

type c08RelCase struct {
	Seed int64  `json:"seed"`
	Path string `json:"path"`
}

func c08Rel(r *Result, seed int64) {
	rng := rand.New(rand.NewSource(seed))
	db, _, sqlDB := OpenRec(&gorm.Config{NowFunc: fixedNowFunc})
	defer sqlDB.Close()
	w := c08Seed(db, rng)
	bad := func(path string, obs, exp interface{}, note string) {
		r.Violate(Violation{Kind: "e2e", Suite: "rel", Input: c08RelCase{seed, path}, Observed: obs, Expected: exp, Note: note})
	}
	for _, unscoped := range []bool{false, true} {
		h := db.Session(&gorm.Session{})
		tag := ""
		if unscoped {
			// Unscoped() returns a chain in progress (clone = 0): wrap it so that `h` is a reusable handle again
			h = h.Unscoped().Session(&gorm.Session{})
			tag = "unscoped-"
		}
		// parents visible
		var ps []SParent
		if err := h.Preload("Kids.Toys").Preload("Pet").Preload("Langs").Order("id").Find(&ps).Error; err != nil {
			bad(tag+"preload", err.Error(), "no error", "")
			continue
		}
		r.Case("rel", tag+"preload", true)
		gotP := []uint{}
		for _, p := range ps {
			gotP = append(gotP, p.ID)
		}
		if !sameUints(gotP, uintsLive(w.Parents, w.DeadParents, unscoped)) {
			bad(tag+"parents", gotP, uintsLive(w.Parents, w.DeadParents, unscoped), "parents returned")
		}
		for _, p := range ps {
			kids := []uint{}
			for _, k := range p.Kids {
				kids = append(kids, k.ID)
				toys := []uint{}
				for _, t := range k.Toys {
					toys = append(toys, t.ID)
				}
				sort.Slice(toys, func(i, j int) bool { return toys[i] < toys[j] })
				if !sameUints(toys, uintsLive(w.Toys[k.ID], w.DeadToys, unscoped)) {
					bad(tag+"preload-nested", toys, uintsLive(w.Toys[k.ID], w.DeadToys, unscoped), fmt.Sprintf("toys of kid %d", k.ID))
				}
			}
			sort.Slice(kids, func(i, j int) bool { return kids[i] < kids[j] })
			if !sameUints(kids, uintsLive(w.Kids[p.ID], w.DeadKids, unscoped)) {
				bad(tag+"preload-hasmany", kids, uintsLive(w.Kids[p.ID], w.DeadKids, unscoped), fmt.Sprintf("kids of parent %d", p.ID))
			}
			langs := []uint{}
			for _, l := range p.Langs {
				langs = append(langs, l.ID)
			}
			sort.Slice(langs, func(i, j int) bool { return langs[i] < langs[j] })
			if !sameUints(langs, uintsLive(w.Langs[p.ID], w.DeadLangs, unscoped)) {
				bad(tag+"preload-many2many", langs, uintsLive(w.Langs[p.ID], w.DeadLangs, unscoped), fmt.Sprintf("langs of parent %d", p.ID))
			}
			petID, hasPet := w.Pet[p.ID]
			wantPet := hasPet && (unscoped || !w.DeadPets[petID])
			if (p.Pet != nil) != wantPet {
				bad(tag+"preload-hasone", p.Pet != nil, wantPet, fmt.Sprintf("pet of parent %d", p.ID))
			}
		}
		// Joins (LEFT) and InnerJoins on the has-one relation, with and without an ON handle
		for _, variant := range []string{"joins", "innerjoins", "joins-on", "innerjoins-on"} {
			var js []SParent
			q := h.Order("`s_parents`.`id`")
			switch variant {
			case "joins":
				q = q.Joins("Pet")
			case "innerjoins":
				q = q.InnerJoins("Pet")
			case "joins-on":
				q = q.Joins("Pet", db.Where("`Pet`.`name` <> ?", "zzz"))
			case "innerjoins-on":
				q = q.InnerJoins("Pet", db.Where("`Pet`.`name` <> ?", "zzz"))
			}
			if err := q.Find(&js).Error; err != nil {
				bad(tag+variant, err.Error(), "no error", "")
				continue
			}
			r.Case("rel", tag+variant, true)
			for _, p := range js {
				if !unscoped && w.DeadParents[p.ID] {
					bad(tag+variant, p.ID, "live parents only", "soft-deleted parent returned")
				}
				petID, hasPet := w.Pet[p.ID]
				// Unscoped on the outer query is propagated to the joined relation's scope
				wantPet := hasPet && (unscoped || !w.DeadPets[petID])
				got := p.Pet != nil && p.Pet.ID != 0
				if got != wantPet {
					bad(tag+variant, fmt.Sprintf("parent %d pet loaded=%v", p.ID, got), wantPet, "joined has-one must honour the relation's soft-delete scope")
				}
			}
			if variant == "innerjoins" || variant == "innerjoins-on" {
				want := []uint{}
				for _, id := range uintsLive(w.Parents, w.DeadParents, unscoped) {
					if pid, ok := w.Pet[id]; ok && (unscoped || !w.DeadPets[pid]) {
						want = append(want, id)
					}
				}
				got := []uint{}
				for _, p := range js {
					got = append(got, p.ID)
				}
				if !sameUints(got, want) {
					bad(tag+variant, got, want, "inner join on a soft-delete relation")
				}
			}
		}
		// belongs-to join: the parent of an order may be soft-deleted
		{
			var os []SOrder
			if err := h.Joins("SParent").Order("`s_orders`.`id`").Find(&os).Error; err == nil {
				r.Case("rel", tag+"joins-belongsto", true)
				for _, o := range os {
					pid := w.Orders[o.ID]
					want := unscoped || !w.DeadParents[pid]
					got := o.SParent != nil && o.SParent.ID != 0
					if got != want {
						bad(tag+"joins-belongsto", fmt.Sprintf("order %d parent loaded=%v", o.ID, got), want, "")
					}
				}
			}
		}
		// association mode
		for _, pid := range w.Parents {
			if w.DeadParents[pid] {
				continue
			}
			p := SParent{ID: pid}
			var kids []SKid
			a := h.Model(&p).Association("Kids")
			if err := a.Find(&kids); err == nil {
				got := []uint{}
				for _, k := range kids {
					got = append(got, k.ID)
				}
				sort.Slice(got, func(i, j int) bool { return got[i] < got[j] })
				want := uintsLive(w.Kids[pid], w.DeadKids, unscoped)
				r.Case("rel", tag+"assoc-find", true)
				if !sameUints(got, want) {
					bad(tag+"assoc-find", got, want, fmt.Sprintf("Association(Kids).Find of parent %d", pid))
				}
				if n := h.Model(&p).Association("Kids").Count(); int(n) != len(want) {
					bad(tag+"assoc-count", n, len(want), fmt.Sprintf("Association(Kids).Count of parent %d", pid))
				}
			}
			var langs []SLang
			if err := h.Model(&p).Association("Langs").Find(&langs); err == nil {
				got := []uint{}
				for _, l := range langs {
					got = append(got, l.ID)
				}
				sort.Slice(got, func(i, j int) bool { return got[i] < got[j] })
				want := uintsLive(w.Langs[pid], w.DeadLangs, unscoped)
				r.Case("rel", tag+"assoc-find-m2m", true)
				if !sameUints(got, want) {
					bad(tag+"assoc-find-m2m", got, want, fmt.Sprintf("Association(Langs).Find of parent %d", pid))
				}
				if n := h.Model(&p).Association("Langs").Count(); int(n) != len(want) {
					bad(tag+"assoc-count-m2m", n, len(want), fmt.Sprintf("Association(Langs).Count of parent %d", pid))
				}
			}
		}
	}
}
