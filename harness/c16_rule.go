package main

// C16 (round 2) — EVERY field of clause.OnConflict must survive gorm's own rewriting of the clause.
//
// Model C16K: id (pk), unique(a, b), slug unique among the rows with live = 1 (partial index), ver, name, qty, updated_at.
// A generated rule fills Columns (none | id | a,b | slug [+ TargetWhere live = 1] | a — no such constraint), Where (0..2
// guards over the stored row, `excluded` and literals, quoted or raw), DoNothing, DoUpdates (excluded.col, literal,
// gorm.Expr sums), UpdateAll, and — DryRun only, SQLite has no such syntax — OnConstraint.
//
// Suites:
//   rule    e2e: Create(struct | map | slice) / Save(slice) with the rule on a table where the new value collides on the
//           key, on (a,b), on slug — the table afterwards must be exactly what the SQL rule defines. The reference
//           (c16kRef) evaluates the rule in Go: which constraint is violated, is it the rule's target, DO NOTHING keeps
//           the row, DO UPDATE applies the assignments (all right-hand sides see the stored row and `excluded`) only when
//           every guard holds, UpdateAll = every inserted column but the key (updated_at = now), a violated constraint
//           that is not the target is an error that leaves the table alone. Not judged (SQLite leaves it open / not this
//           property): two different rows conflicting at once, RowsAffected, the in-memory value.
//   clause  tie: the clause.OnConflict value gorm leaves on the statement after a DryRun Create (all seven fields) and the
//           rendered `ON CONFLICT …` SQL vs Model.Upsert OC.expand / OC.render; for a single conflicting row also the
//           row the database leaves vs OC.onRow.

import (
	"encoding/json"
	"fmt"
	"math/rand"
	"regexp"
	"sort"
	"strconv"
	"strings"
	"time"

	"gorm.io/gorm"
	"gorm.io/gorm/clause"
)

type C16K struct {
	ID        uint   `gorm:"primaryKey"`
	A         int    `gorm:"uniqueIndex:c16k_ab"`
	B         int    `gorm:"uniqueIndex:c16k_ab"`
	Slug      string `gorm:"uniqueIndex:c16k_slug,where:live = 1"`
	Live      int
	Ver       int
	Name      string
	Qty       int
	UpdatedAt time.Time
}

func (C16K) TableName() string { return "c16_k" }

const (
	c16kID = iota
	c16kA
	c16kB
	c16kSlug
	c16kLive
	c16kVer
	c16kName
	c16kQty
	c16kUpd
	c16kN
)

var c16kCols = []string{"id", "a", "b", "slug", "live", "ver", "name", "qty", "updated_at"}
var c16kStr = []bool{false, false, false, true, false, false, true, false, false}

func c16kKinds() []interface{} {
	k := []interface{}{[]interface{}{"pk"}}
	for i := 1; i < c16kUpd; i++ {
		k = append(k, []interface{}{"plain"})
	}
	return append(k, []interface{}{"au"})
}

func c16kVal(c, n int) interface{} {
	switch {
	case c16kStr[c]:
		return c16EncS(n)
	case c == c16kUpd:
		return c16EncT(n)
	case c == c16kID:
		return uint(n)
	}
	return n
}

func c16kMk(r []int) C16K {
	return C16K{ID: uint(r[0]), A: r[1], B: r[2], Slug: c16EncS(r[3]), Live: r[4], Ver: r[5], Name: c16EncS(r[6]), Qty: r[7], UpdatedAt: c16EncT(r[8])}
}

// ---- program ---------------------------------------------------------------------------------------------------

type C16KT struct { // term
	K string `json:"k"` // o | e | # | +
	C int    `json:"c,omitempty"`
	V int    `json:"v,omitempty"`
	A *C16KT `json:"a,omitempty"`
	B *C16KT `json:"b,omitempty"`
}

type C16KG struct {
	L   C16KT  `json:"l"`
	Op  string `json:"op"` // = <> > <
	R   C16KT  `json:"r"`
	Raw bool   `json:"raw,omitempty"` // clause.Expr{SQL: "…"} instead of clause.Eq/Neq/Gt/Lt
}

type C16KU struct {
	C int   `json:"c"`
	T C16KT `json:"t"`
}

type C16KR struct {
	Cols    []int   `json:"cols"`
	Where   []C16KG `json:"where"`
	TW      []C16KG `json:"tw"`
	Cons    string  `json:"cons"`
	Nothing bool    `json:"nothing"`
	Updates []C16KU `json:"updates"`
	All     bool    `json:"all"`
}

type C16KP struct {
	Rows [][]int `json:"rows"`
	Rule *C16KR  `json:"rule,omitempty"`
	Src  string  `json:"src"`            // struct | map | slice | sslice
	Keys []int   `json:"keys,omitempty"` // map source: the keys
	Sel  []int   `json:"sel,omitempty"`
	Omit []int   `json:"omit,omitempty"`
	Vals [][]int `json:"vals"`
	// derivation inserted after Clauses(...): "" | session | ctx
	Deriv string `json:"deriv,omitempty"`
}

func (t C16KT) J() interface{} {
	switch t.K {
	case "o", "e":
		return []interface{}{t.K, t.C}
	case "#":
		return []interface{}{"#", t.V}
	}
	return []interface{}{"+", t.A.J(), t.B.J()}
}

func c16kGuardsJ(gs []C16KG) []interface{} {
	out := []interface{}{}
	for _, g := range gs {
		out = append(out, []interface{}{g.L.J(), g.Op, g.R.J()})
	}
	return out
}

func (r *C16KR) J() map[string]interface{} {
	ups := []interface{}{}
	for _, u := range r.Updates {
		ups = append(ups, []interface{}{u.C, u.T.J()})
	}
	cols := r.Cols
	if cols == nil {
		cols = []int{}
	}
	return map[string]interface{}{"cols": cols, "where": c16kGuardsJ(r.Where), "tw": c16kGuardsJ(r.TW), "cons": r.Cons,
		"nothing": r.Nothing, "updates": ups, "all": r.All}
}

// ---- the gorm values -------------------------------------------------------------------------------------------

func (t C16KT) col() clause.Column {
	if t.K == "e" {
		return clause.Column{Table: "excluded", Name: c16kCols[t.C]}
	}
	return clause.Column{Table: "c16_k", Name: c16kCols[t.C]}
}

// raw SQL text of a term; bare = unqualified stored column + inline literal (index predicates)
func (t C16KT) raw(bare bool, vars *[]interface{}) string {
	switch t.K {
	case "o":
		if bare {
			return c16kCols[t.C]
		}
		return "c16_k." + c16kCols[t.C]
	case "e":
		return "excluded." + c16kCols[t.C]
	case "#":
		if bare {
			return fmt.Sprint(t.V)
		}
		*vars = append(*vars, t.V)
		return "?"
	}
	return t.A.raw(bare, vars) + " + " + t.B.raw(bare, vars)
}

func (t C16KT) value(litCol int) interface{} {
	switch t.K {
	case "o", "e":
		return t.col()
	case "#":
		return c16kVal(litCol, t.V)
	}
	var vars []interface{}
	return gorm.Expr(t.raw(false, &vars), vars...)
}

func (g C16KG) expr(bare bool) clause.Expression {
	if g.Raw || bare {
		var vars []interface{}
		sql := g.L.raw(bare, &vars) + " " + g.Op + " " + g.R.raw(bare, &vars)
		return clause.Expr{SQL: sql, Vars: vars}
	}
	litCol := g.L.C
	v := g.R.value(litCol)
	switch g.Op {
	case "=":
		return clause.Eq{Column: g.L.col(), Value: v}
	case "<>":
		return clause.Neq{Column: g.L.col(), Value: v}
	case ">":
		return clause.Gt{Column: g.L.col(), Value: v}
	}
	return clause.Lt{Column: g.L.col(), Value: v}
}

func (r *C16KR) clause() clause.OnConflict {
	oc := clause.OnConflict{OnConstraint: r.Cons, DoNothing: r.Nothing, UpdateAll: r.All}
	for _, c := range r.Cols {
		oc.Columns = append(oc.Columns, clause.Column{Name: c16kCols[c]})
	}
	for _, g := range r.Where {
		oc.Where.Exprs = append(oc.Where.Exprs, g.expr(false))
	}
	for _, g := range r.TW {
		oc.TargetWhere.Exprs = append(oc.TargetWhere.Exprs, g.expr(true))
	}
	for _, u := range r.Updates {
		if u.T.K == "e" && u.T.C == u.C {
			oc.DoUpdates = append(oc.DoUpdates, clause.AssignmentColumns([]string{c16kCols[u.C]})...)
		} else {
			oc.DoUpdates = append(oc.DoUpdates, clause.Assignment{Column: clause.Column{Name: c16kCols[u.C]}, Value: u.T.value(u.C)})
		}
	}
	return oc
}

// ---- decoding the clause gorm leaves on the statement ------------------------------------------------------------

func c16kColIdx(name string) int {
	for i, c := range c16kCols {
		if c == name {
			return i
		}
	}
	return -1
}

var c16kRawTok = regexp.MustCompile(`^(?:(excluded|c16_k)\.)?([a-z_]+)$`)

func c16kDecRaw(sql string, vars []interface{}, litCol int) (interface{}, int) {
	// "x + y" | "x": x = excluded.c | c16_k.c | c | ? | digits
	used := 0
	one := func(tok string) interface{} {
		if tok == "?" {
			if used < len(vars) {
				used++
				return c16kDecVal(vars[used-1], litCol)
			}
			return "bad-var"
		}
		if n, err := strconv.Atoi(tok); err == nil {
			return []interface{}{"#", n}
		}
		if m := c16kRawTok.FindStringSubmatch(tok); m != nil && c16kColIdx(m[2]) >= 0 {
			if m[1] == "excluded" {
				return []interface{}{"e", c16kColIdx(m[2])}
			}
			return []interface{}{"o", c16kColIdx(m[2])}
		}
		return "bad-token:" + tok
	}
	parts := strings.Split(sql, " + ")
	out := one(strings.TrimSpace(parts[0]))
	for _, p := range parts[1:] {
		out = []interface{}{"+", out, one(strings.TrimSpace(p))}
	}
	return out, used
}

func c16kDecVal(v interface{}, litCol int) interface{} {
	switch x := v.(type) {
	case clause.Column:
		k := "o"
		if x.Table == "excluded" {
			k = "e"
		}
		return []interface{}{k, c16kColIdx(x.Name)}
	case clause.Expr:
		t, _ := c16kDecRaw(x.SQL, x.Vars, litCol)
		return t
	case time.Time:
		return []interface{}{"#", c16DecT(x)}
	case string:
		return []interface{}{"#", c16DecS(x)}
	case int:
		return []interface{}{"#", x}
	case uint:
		return []interface{}{"#", int(x)}
	case int64:
		return []interface{}{"#", int(x)}
	}
	return fmt.Sprintf("bad-value:%T", v)
}

func c16kDecWhere(w clause.Where) []interface{} {
	out := []interface{}{}
	colOf := func(c interface{}) (interface{}, int) {
		switch x := c.(type) {
		case clause.Column:
			return c16kDecVal(x, 0), c16kColIdx(x.Name)
		case string:
			return []interface{}{"o", c16kColIdx(x)}, c16kColIdx(x)
		}
		return "bad-column", 0
	}
	for _, e := range w.Exprs {
		switch x := e.(type) {
		case clause.Eq:
			l, c := colOf(x.Column)
			out = append(out, []interface{}{l, "=", c16kDecVal(x.Value, c)})
		case clause.Neq:
			l, c := colOf(x.Column)
			out = append(out, []interface{}{l, "<>", c16kDecVal(x.Value, c)})
		case clause.Gt:
			l, c := colOf(x.Column)
			out = append(out, []interface{}{l, ">", c16kDecVal(x.Value, c)})
		case clause.Lt:
			l, c := colOf(x.Column)
			out = append(out, []interface{}{l, "<", c16kDecVal(x.Value, c)})
		case clause.Expr:
			done := false
			for _, op := range []string{" <> ", " = ", " > ", " < "} {
				if i := strings.Index(x.SQL, op); i >= 0 {
					l, used := c16kDecRaw(x.SQL[:i], x.Vars, 0)
					lc := 0
					if la, ok := l.([]interface{}); ok && len(la) == 2 {
						lc, _ = la[1].(int)
					}
					r, _ := c16kDecRaw(x.SQL[i+len(op):], x.Vars[used:], lc)
					out = append(out, []interface{}{l, strings.TrimSpace(op), r})
					done = true
					break
				}
			}
			if !done {
				out = append(out, "bad-expr:"+x.SQL)
			}
		default:
			out = append(out, fmt.Sprintf("bad-expr:%T", e))
		}
	}
	return out
}

// stable by column: the order of a column's own assignments is kept (the rightmost wins), the order between columns
// is immaterial (a map source lists its columns alphabetically)
func c16kSortUpdates(ups []interface{}) []interface{} {
	sort.SliceStable(ups, func(i, j int) bool {
		return fmt.Sprint(ups[i].([]interface{})[0]) < fmt.Sprint(ups[j].([]interface{})[0])
	})
	return ups
}

func c16kDecClause(oc clause.OnConflict) map[string]interface{} {
	cols := []int{}
	for _, c := range oc.Columns {
		cols = append(cols, c16kColIdx(c.Name))
	}
	ups := []interface{}{}
	for _, a := range oc.DoUpdates {
		c := c16kColIdx(a.Column.Name)
		ups = append(ups, []interface{}{c, c16kDecVal(a.Value, c)})
	}
	return map[string]interface{}{"cols": cols, "where": c16kDecWhere(oc.Where), "tw": c16kDecWhere(oc.TargetWhere), "cons": oc.OnConstraint,
		"nothing": oc.DoNothing, "updates": c16kSortUpdates(ups), "all": oc.UpdateAll}
}

// ---- expected SQL from the model's token list ----------------------------------------------------------------------

var c16kTermTok = regexp.MustCompile(`^([oe#])(\d+)$`)

// SQL text gorm writes for a model token, given how THIS program spells its expressions
func c16kTermSQL(tok string, litCol int, raw, bare bool) string {
	if strings.HasPrefix(tok, "(") { // (x+y): always a raw gorm.Expr
		in := tok[1 : len(tok)-1]
		i := strings.Index(in, "+")
		return c16kTermSQL(in[:i], litCol, true, bare) + " + " + c16kTermSQL(in[i+1:], litCol, true, bare)
	}
	m := c16kTermTok.FindStringSubmatch(tok)
	if m == nil {
		return "?" + tok
	}
	n, _ := strconv.Atoi(m[2])
	switch m[1] {
	case "o":
		switch {
		case bare:
			return c16kCols[n]
		case raw:
			return "c16_k." + c16kCols[n]
		}
		return "`c16_k`.`" + c16kCols[n] + "`"
	case "e":
		if raw {
			return "excluded." + c16kCols[n]
		}
		return "`excluded`.`" + c16kCols[n] + "`"
	}
	switch {
	case litCol == c16kUpd:
		return `"` + c16EncT(n).Format("2006-01-02 15:04:05") + `"`
	case c16kStr[litCol] && !raw:
		return `"` + c16EncS(n) + `"`
	}
	return fmt.Sprint(n)
}

var c16kGuardTok = regexp.MustCompile(`^(.+?)(<>|=|>|<)(.+)$`)

func c16kGuardSQL(tok string, g *C16KG, bare bool) string {
	m := c16kGuardTok.FindStringSubmatch(tok)
	if m == nil {
		return "?" + tok
	}
	raw := bare || (g != nil && g.Raw)
	lc := 0
	if g != nil {
		lc = g.L.C
	}
	return c16kTermSQL(m[1], lc, raw, bare) + " " + m[2] + " " + c16kTermSQL(m[3], lc, raw, bare)
}

// c16kExpectSQL lays the model's tokens out the way on_conflict.go Build writes them
func c16kExpectSQL(toks []string, r *C16KR) string {
	var b strings.Builder
	i := 0
	guards := func(gs []C16KG, bare bool) {
		b.WriteString(" WHERE ")
		k := 0
		for i < len(toks) && c16kGuardTok.MatchString(toks[i]) && !strings.Contains(toks[i], ":=") {
			if k > 0 {
				b.WriteString(" AND ")
			}
			var g *C16KG
			if k < len(gs) {
				g = &gs[k]
			}
			b.WriteString(c16kGuardSQL(toks[i], g, bare))
			i++
			k++
		}
		b.WriteString(" ")
	}
	for i < len(toks) {
		switch t := toks[i]; {
		case t == "ON CONSTRAINT":
			b.WriteString("ON CONSTRAINT " + toks[i+1] + " ")
			i += 2
		case t == "(":
			i++
			var cs []string
			for toks[i] != ")" {
				n, _ := strconv.Atoi(toks[i])
				cs = append(cs, "`"+c16kCols[n]+"`")
				i++
			}
			i++
			b.WriteString("(" + strings.Join(cs, ",") + ") ")
		case t == "WHERE" && !strings.Contains(b.String(), "DO "):
			i++
			guards(r.TW, true)
		case t == "WHERE":
			i++
			guards(r.Where, false)
		case t == "DO NOTHING":
			b.WriteString("DO NOTHING")
			i++
		case t == "DO UPDATE SET":
			b.WriteString("DO UPDATE SET ")
			i++
			k := 0
			for i < len(toks) && strings.Contains(toks[i], ":=") {
				p := strings.SplitN(toks[i], ":=", 2)
				c, _ := strconv.Atoi(p[0])
				if k > 0 {
					b.WriteString(",")
				}
				b.WriteString("`" + c16kCols[c] + "`=" + c16kTermSQL(p[1], c, false, false))
				i++
				k++
			}
		default:
			b.WriteString("?" + t)
			i++
		}
	}
	return strings.Join(strings.Fields(b.String()), " ")
}

// ---- reference: evaluate the rule in Go ------------------------------------------------------------------------------

func (t C16KT) eval(o, p []int) int {
	switch t.K {
	case "o":
		return o[t.C]
	case "e":
		return p[t.C]
	case "#":
		return t.V
	}
	return t.A.eval(o, p) + t.B.eval(o, p)
}

func (g C16KG) holds(o, p []int) bool {
	l, r := g.L.eval(o, p), g.R.eval(o, p)
	switch g.Op {
	case "=":
		return l == r
	case "<>":
		return l != r
	case ">":
		return l > r
	}
	return l < r
}

// constraints: 0 = primary key, 1 = unique(a,b), 2 = unique(slug) where live = 1; null[c] = the INSERT leaves c NULL
func c16kViolates(k int, x, y []int, xnull []bool) bool {
	switch k {
	case 0:
		return x[c16kID] == y[c16kID]
	case 1:
		return !xnull[c16kA] && !xnull[c16kB] && x[c16kA] == y[c16kA] && x[c16kB] == y[c16kB]
	}
	return !xnull[c16kSlug] && !xnull[c16kLive] && x[c16kLive] == 1 && y[c16kLive] == 1 && x[c16kSlug] == y[c16kSlug]
}

// target constraint named by the rule: -1 = none given (any), -2 = names no constraint of the table
func (r *C16KR) target() int {
	cols := r.Cols
	if r.All && len(cols) == 0 {
		cols = []int{c16kID} // create.go: "use primary fields as default OnConflict columns"
	}
	key := fmt.Sprint(cols)
	tw := len(r.TW) > 0
	switch {
	case len(cols) == 0 && !tw:
		return -1
	case key == "[0]" && !tw:
		return 0
	case (key == "[1 2]" || key == "[2 1]") && !tw:
		return 1
	case key == "[3]" && tw:
		return 2
	}
	return -2
}

type c16kOutcome struct {
	Rows [][]int
	Err  string // ok | unique | other
	Skip bool   // the oracle does not judge this input
	// for the row tie: the single conflicting row before, the proposed row, the row after
	Old, Prop []int
	Note      string
	// per value (round 5): what the statement did with it — 0 not stored (DO NOTHING hit, guard false, nothing assignable),
	// 1 inserted, 2 an existing row updated — and the key of the row it landed in
	Disp [][2]int
}

func c16kRefRun(p *C16KP) (out c16kOutcome) {
	rows := map[int][]int{}
	for _, r := range p.Rows {
		rows[r[0]] = append([]int(nil), r...)
	}
	dump := func() [][]int {
		var ks []int
		for k := range rows {
			ks = append(ks, k)
		}
		sort.Ints(ks)
		o := [][]int{}
		for _, k := range ks {
			o = append(o, rows[k])
		}
		return o
	}
	fail := func(class, note string) c16kOutcome {
		return c16kOutcome{Rows: append([][]int{}, p.Rows...), Err: class, Note: note}
	}
	rule := p.Rule
	if p.Src == "sslice" && rule == nil {
		rule = &C16KR{All: true}
	}
	if rule != nil && rule.target() == -2 {
		return fail("other", "the conflict target names no constraint")
	}
	for _, v := range p.Vals {
		listed := func(c int) bool {
			switch {
			case p.Src == "map":
				return c16Has(p.Keys, c)
			case c == c16kID:
				return v[c] != 0 && (len(p.Sel) == 0 || c16Has(p.Sel, c)) && !c16Has(p.Omit, c)
			case c == c16kUpd:
				return !c16Has(p.Omit, c)
			}
			return (len(p.Sel) == 0 || c16Has(p.Sel, c)) && !c16Has(p.Omit, c)
		}
		updatable := func(c int) bool {
			return p.Src == "map" || ((len(p.Sel) == 0 || c16Has(p.Sel, c)) && !c16Has(p.Omit, c))
		}
		prop := make([]int, c16kN)
		null := make([]bool, c16kN)
		for c := 0; c < c16kN; c++ {
			if listed(c) {
				prop[c] = v[c]
			} else {
				null[c] = c != c16kID
			}
		}
		if !listed(c16kID) {
			next := 1
			for k := range rows {
				if k >= next {
					next = k + 1
				}
			}
			prop[c16kID] = next
		}
		// which constraints does the proposed row violate, and with which rows
		var cons []int
		hit := map[int]bool{}
		for k := 0; k < 3; k++ {
			for id, r := range rows {
				if c16kViolates(k, prop, r, null) {
					cons = append(cons, k)
					hit[id] = true
				}
			}
		}
		if len(cons) == 0 {
			rows[prop[0]] = prop
			out.Disp = append(out.Disp, [2]int{1, prop[0]})
			continue
		}
		if rule == nil {
			return fail("unique", "no rule")
		}
		tg := rule.target()
		if len(hit) > 1 {
			return c16kOutcome{Skip: true, Note: "two different rows conflict"}
		}
		onTarget := tg == -1
		for _, k := range cons {
			if k == tg {
				onTarget = true
			}
		}
		if !onTarget {
			return fail("unique", "the violated constraint is not the rule's target")
		}
		if tg >= 0 && len(cons) > 1 {
			return c16kOutcome{Skip: true, Note: "target and another constraint conflict at once"}
		}
		var old []int
		for id := range hit {
			old = rows[id]
		}
		if len(p.Vals) == 1 {
			out.Old, out.Prop = append([]int(nil), old...), append([]int(nil), prop...)
		}
		if rule.Nothing {
			out.Disp = append(out.Disp, [2]int{0, old[0]})
			continue
		}
		// UpdateAll: gorm appends `col = excluded.col` for every inserted, assignable column (updated_at = now)
		ups := append([]C16KU(nil), rule.Updates...)
		if rule.All {
			for c := 1; c < c16kN; c++ {
				if listed(c) && updatable(c) {
					ups = append(ups, C16KU{C: c, T: C16KT{K: "e", C: c}})
				}
			}
		}
		if len(ups) == 0 {
			if rule.All {
				out.Disp = append(out.Disp, [2]int{0, old[0]})
				continue // nothing assignable: gorm degrades the rule to DO NOTHING
			}
			return c16kOutcome{Skip: true, Note: "DO UPDATE with an empty SET list"}
		}
		ok := true
		for _, g := range rule.Where {
			ok = ok && g.holds(old, prop)
		}
		if !ok {
			out.Disp = append(out.Disp, [2]int{0, old[0]})
			continue
		}
		nw := append([]int(nil), old...)
		for _, u := range ups {
			nw[u.C] = u.T.eval(old, prop)
		}
		nonull := make([]bool, c16kN)
		for id, r := range rows {
			if id == old[0] {
				continue
			}
			for k := 1; k < 3; k++ {
				if c16kViolates(k, nw, r, nonull) {
					return fail("unique", "the updated row violates another constraint")
				}
			}
		}
		rows[old[0]] = nw
		out.Disp = append(out.Disp, [2]int{2, old[0]})
	}
	out.Rows, out.Err = dump(), "ok"
	return
}

// ---- real side ---------------------------------------------------------------------------------------------------------

type c16kEnv struct {
	*c16Env
}

func c16kOpen() *c16kEnv {
	e := c16Open()
	if err := e.db.AutoMigrate(&C16K{}); err != nil {
		panic(err)
	}
	return &c16kEnv{e}
}

func (e *c16kEnv) setTable(rows [][]int) {
	e.quiet(func() {
		c16MustExec(e.sql, "DELETE FROM c16_k")
		c16MustExec(e.sql, "DELETE FROM sqlite_sequence WHERE name = 'c16_k'")
		for _, r := range rows {
			args := make([]interface{}, c16kN)
			for c := range args {
				args[c] = c16kVal(c, r[c])
			}
			c16MustExec(e.sql, "INSERT INTO c16_k ("+strings.Join(c16kCols, ",")+") VALUES (?"+strings.Repeat(",?", c16kN-1)+")", args...)
		}
	})
}

func (e *c16kEnv) dump() [][]int {
	out := [][]int{}
	e.quiet(func() {
		var rs []C16K
		if err := e.db.Session(&gorm.Session{NewDB: true}).Order("id").Find(&rs).Error; err != nil {
			panic(err)
		}
		for _, r := range rs {
			out = append(out, []int{int(r.ID), r.A, r.B, c16DecS(r.Slug), r.Live, r.Ver, c16DecS(r.Name), r.Qty, 0})
		}
	})
	return out
}

func c16kNames(cols []int) []string {
	out := make([]string, len(cols))
	for i, c := range cols {
		out[i] = c16kCols[c]
	}
	return out
}

// exec runs the program's statement on handle h
func (e *c16kEnv) exec(h *gorm.DB, p *C16KP) *gorm.DB {
	if p.Rule != nil {
		h = h.Clauses(p.Rule.clause())
	}
	switch p.Deriv {
	case "session":
		h = h.Session(&gorm.Session{})
	case "ctx":
		h = h.WithContext(WithMarker(h.Statement.Context, "c16k"))
	}
	if len(p.Sel) > 0 {
		n := c16kNames(p.Sel)
		h = h.Select(n[0], func() []interface{} {
			o := []interface{}{}
			for _, x := range n[1:] {
				o = append(o, x)
			}
			return o
		}()...)
	}
	if len(p.Omit) > 0 {
		h = h.Omit(c16kNames(p.Omit)...)
	}
	switch p.Src {
	case "map":
		m := map[string]interface{}{}
		for _, c := range p.Keys {
			m[c16kCols[c]] = c16kVal(c, p.Vals[0][c])
		}
		return h.Model(&C16K{}).Create(m)
	case "struct":
		v := c16kMk(p.Vals[0])
		return h.Create(&v)
	}
	vs := make([]C16K, len(p.Vals))
	for i, r := range p.Vals {
		vs[i] = c16kMk(r)
	}
	if p.Src == "sslice" {
		return h.Save(&vs)
	}
	return h.Create(&vs)
}

func c16kErrClass(err error) string {
	c := c16ErrClass(err)
	if strings.HasPrefix(c, "other:") {
		return "other"
	}
	return c
}

func c16kMask(rows [][]int) [][]int {
	out := make([][]int, len(rows))
	for i, r := range rows {
		out[i] = append([]int(nil), r...)
		out[i][c16kUpd] = 0
	}
	return out
}

func (p *C16KP) srcJ() interface{} {
	if p.Src == "map" {
		return []interface{}{"map", p.Keys}
	}
	sel, om := p.Sel, p.Omit
	if sel == nil {
		sel = []int{}
	}
	if om == nil {
		om = []int{}
	}
	return []interface{}{"struct", sel, om}
}

// judge one program on the real code; returns the reference outcome and the real table
func c16kJudge(r *Result, e *c16kEnv, p *C16KP, report bool) (c16kOutcome, [][]int, bool) {
	exp := c16kRefRun(p)
	e.setTable(p.Rows)
	res := e.exec(e.db, p)
	got := e.dump()
	if exp.Skip {
		return exp, got, true
	}
	what := ""
	var obs, want interface{}
	// the key AUTOINCREMENT hands to a new row is not part of the rule (SQLite burns a rowid for a conflicting row of the
	// same statement): keys that were neither in the table nor given by the caller are compared as "some new key"
	known := map[int]bool{}
	for _, r := range p.Rows {
		known[r[0]] = true
	}
	for _, v := range p.Vals {
		known[v[0]] = true
	}
	norm := func(rows [][]int) [][]int {
		out := c16kMask(rows)
		for _, r := range out {
			if !known[r[0]] {
				r[0] = -1
			}
		}
		sort.SliceStable(out, func(i, j int) bool { return fmt.Sprint(out[i]) < fmt.Sprint(out[j]) })
		return out
	}
	if canon(norm(got)) != canon(norm(exp.Rows)) {
		what, obs, want = "table after the upsert is not what the rule defines ("+exp.Note+")", c16kMask(got), c16kMask(exp.Rows)
	} else if c := c16kErrClass(res.Error); c != exp.Err {
		what, obs, want = "error class differs ("+exp.Note+")", fmt.Sprint(res.Error), exp.Err
	}
	if what != "" && report {
		r.Violate(Violation{Kind: "e2e", Suite: "rule", Input: p, Observed: obs, Expected: want, Note: what})
	}
	return exp, got, what == ""
}

// ---- generators ------------------------------------------------------------------------------------------------------------

func c16kGenRow(rng *rand.Rand, id int) []int {
	return []int{id, 1 + rng.Intn(2), 1 + rng.Intn(2), 1 + rng.Intn(3), rng.Intn(2), rng.Intn(4), rng.Intn(3), rng.Intn(4), 0}
}

func c16kGenTable(rng *rand.Rand) [][]int {
	rows := [][]int{}
	for id := 1; id <= 3; id++ {
		if rng.Intn(4) == 0 {
			continue
		}
		for try := 0; try < 10; try++ {
			r := c16kGenRow(rng, id)
			r[c16kUpd] = 2
			ok := true
			for _, o := range rows {
				for k := 1; k < 3; k++ {
					ok = ok && !c16kViolates(k, r, o, make([]bool, c16kN))
				}
			}
			if ok {
				rows = append(rows, r)
				break
			}
		}
	}
	return rows
}

var c16kInts = []int{c16kLive, c16kVer, c16kQty, c16kA, c16kB}

func c16kGenGuard(rng *rand.Rand) C16KG {
	c := []int{c16kVer, c16kQty, c16kLive, c16kName}[rng.Intn(4)]
	g := C16KG{Op: []string{"=", "<>", ">", "<"}[rng.Intn(4)], Raw: rng.Intn(3) == 0}
	switch rng.Intn(5) {
	case 0, 1: // the optimistic-lock shape: excluded.c ? stored.c
		g.L, g.R = C16KT{K: "e", C: c}, C16KT{K: "o", C: c}
	case 2:
		g.L, g.R = C16KT{K: "o", C: c}, C16KT{K: "#", V: rng.Intn(3)}
	case 3:
		g.L, g.R = C16KT{K: "e", C: c}, C16KT{K: "#", V: rng.Intn(3)}
	default:
		g.L, g.R = C16KT{K: "o", C: c}, C16KT{K: "e", C: c}
	}
	if c == c16kName && g.Raw && (g.L.K == "#" || g.R.K == "#") {
		g.Raw = false // a raw string literal would need quoting conventions of its own
	}
	return g
}

func c16kGenRule(rng *rand.Rand, dry bool) *C16KR {
	r := &C16KR{}
	switch rng.Intn(10) {
	case 0:
	case 1, 2, 3:
		r.Cols = []int{c16kID}
	case 4, 5:
		r.Cols = []int{c16kA, c16kB}
		if rng.Intn(3) == 0 {
			r.Cols = []int{c16kB, c16kA}
		}
	case 6, 7:
		r.Cols = []int{c16kSlug}
		r.TW = []C16KG{{L: C16KT{K: "o", C: c16kLive}, Op: "=", R: C16KT{K: "#", V: 1}}}
	case 8:
		r.Cols = []int{c16kID}
	default:
		r.Cols = []int{c16kA} // names no constraint
	}
	switch rng.Intn(6) {
	case 0:
		r.Nothing = true
	case 1, 2, 3:
		r.All = true
	default:
		cols := c16Subset(rng, []int{c16kVer, c16kName, c16kQty, c16kLive, c16kSlug, c16kA}, 1, 3)
		for _, c := range cols {
			u := C16KU{C: c, T: C16KT{K: "e", C: c}}
			switch rng.Intn(5) {
			case 0:
				u.T = C16KT{K: "#", V: rng.Intn(4)}
			case 1:
				if !c16kStr[c] {
					u.T = C16KT{K: "+", A: &C16KT{K: "o", C: c}, B: &C16KT{K: "e", C: c}}
				}
			case 2:
				if !c16kStr[c] {
					u.T = C16KT{K: "+", A: &C16KT{K: "o", C: c}, B: &C16KT{K: "#", V: 1 + rng.Intn(2)}}
				}
			case 3:
				if c == c16kName {
					u.T = C16KT{K: "e", C: c16kSlug}
				} else if !c16kStr[c] {
					u.T = C16KT{K: "e", C: c16kInts[rng.Intn(len(c16kInts))]}
				}
			}
			r.Updates = append(r.Updates, u)
		}
	}
	if !r.Nothing && rng.Intn(5) < 3 {
		for i, n := 0, 1+rng.Intn(2); i < n; i++ {
			r.Where = append(r.Where, c16kGenGuard(rng))
		}
	}
	if dry {
		// shapes only the clause tie looks at: flag combinations, a named constraint, a pre-filled SET list under UpdateAll
		switch rng.Intn(6) {
		case 0:
			r.Cons = "c16k_ab"
		case 1:
			r.Nothing, r.All = true, true
		case 2:
			if r.All {
				r.Updates = append(r.Updates, C16KU{C: c16kQty, T: C16KT{K: "+", A: &C16KT{K: "o", C: c16kQty}, B: &C16KT{K: "#", V: 1}}})
			}
		case 3:
			if r.Nothing {
				r.Where = append(r.Where, c16kGenGuard(rng))
			}
		}
	}
	return r
}

func c16kGenProg(rng *rand.Rand, dry bool) *C16KP {
	p := &C16KP{Rows: c16kGenTable(rng)}
	if rng.Intn(12) != 0 {
		p.Rule = c16kGenRule(rng, dry)
	}
	// the value: collide on the key, on (a,b), on slug, or on nothing
	mk := func() []int {
		v := c16kGenRow(rng, 0)
		if len(p.Rows) > 0 {
			o := p.Rows[rng.Intn(len(p.Rows))]
			k := rng.Intn(5)
			if p.Rule != nil && rng.Intn(3) != 0 {
				// collide on the constraint the rule targets
				switch p.Rule.target() {
				case 0:
					k = 0
				case 1:
					k = 2
				case 2:
					k = 3
				}
			}
			switch k {
			case 0, 1:
				v[c16kID] = o[c16kID]
				if rng.Intn(2) == 0 {
					v[c16kA], v[c16kB] = 3, 3+rng.Intn(2) // keep (a,b) out of the way
					v[c16kSlug] = 4 + rng.Intn(2)
				}
			case 2:
				v[c16kA], v[c16kB] = o[c16kA], o[c16kB]
				v[c16kSlug] = 4 + rng.Intn(2)
			case 3:
				v[c16kSlug], v[c16kLive] = o[c16kSlug], 1
				v[c16kA], v[c16kB] = 3, 3+rng.Intn(2)
			default:
				v[c16kID] = 4
			}
		}
		return v
	}
	switch rng.Intn(8) {
	case 0, 1:
		p.Src = "map"
		p.Keys = append([]int{c16kA, c16kB, c16kSlug, c16kLive}, c16Subset(rng, []int{c16kVer, c16kName, c16kQty}, 0, 3)...)
		p.Vals = [][]int{mk()}
		if p.Vals[0][c16kID] != 0 || rng.Intn(2) == 0 {
			if p.Vals[0][c16kID] == 0 {
				p.Vals[0][c16kID] = 1 + rng.Intn(4)
			}
			p.Keys = append([]int{c16kID}, p.Keys...)
		}
		sort.Ints(p.Keys)
	case 2:
		p.Src = "slice"
	case 3:
		p.Src = "sslice"
	default:
		p.Src = "struct"
		p.Vals = [][]int{mk()}
		switch rng.Intn(6) {
		case 0:
			p.Omit = c16Subset(rng, []int{c16kVer, c16kName, c16kQty, c16kUpd}, 1, 2)
		case 1:
			p.Sel = append([]int{c16kID, c16kA, c16kB, c16kSlug, c16kLive}, c16Subset(rng, []int{c16kVer, c16kName, c16kQty}, 1, 2)...)
			sort.Ints(p.Sel)
		}
	}
	if p.Src == "slice" || p.Src == "sslice" {
		zero := rng.Intn(3) == 0
		for i, n := 0, 1+rng.Intn(2); i < n; i++ {
			v := mk()
			if zero {
				v[c16kID] = 0
			} else if v[c16kID] == 0 {
				v[c16kID] = 4 + i
			}
			p.Vals = append(p.Vals, v)
		}
		if len(p.Vals) == 2 && p.Vals[0][0] != 0 && p.Vals[0][0] == p.Vals[1][0] {
			p.Vals = p.Vals[:1]
		}
	}
	if p.Rule != nil && rng.Intn(4) == 0 {
		p.Deriv = []string{"session", "ctx"}[rng.Intn(2)]
	}
	// the counter shape: UpdateAll plus the caller's own assignment of a column the INSERT leaves out
	if p.Rule != nil && p.Rule.All && !p.Rule.Nothing && p.Src == "struct" && rng.Intn(3) == 0 {
		c := []int{c16kQty, c16kVer}[rng.Intn(2)]
		p.Sel, p.Omit = nil, []int{c}
		p.Rule.Updates = []C16KU{{C: c, T: C16KT{K: "+", A: &C16KT{K: "o", C: c}, B: &C16KT{K: "#", V: 1 + rng.Intn(2)}}}}
	}
	// `excluded.c` of a column the INSERT does not list is NULL (three-valued guards): keep every column the rule reads listed
	if p.Rule != nil {
		var used []int
		var walk func(t *C16KT)
		walk = func(t *C16KT) {
			if t == nil {
				return
			}
			if t.K == "e" {
				used = append(used, t.C)
			}
			walk(t.A)
			walk(t.B)
		}
		for i := range p.Rule.Where {
			walk(&p.Rule.Where[i].L)
			walk(&p.Rule.Where[i].R)
		}
		for i := range p.Rule.Updates {
			walk(&p.Rule.Updates[i].T)
		}
		for _, c := range used {
			if p.Src == "map" && !c16Has(p.Keys, c) {
				p.Keys = append(p.Keys, c)
				sort.Ints(p.Keys)
			}
			if len(p.Sel) > 0 && !c16Has(p.Sel, c) {
				p.Sel = append(p.Sel, c)
				sort.Ints(p.Sel)
			}
			if c16Has(p.Omit, c) {
				var om []int
				for _, x := range p.Omit {
					if x != c {
						om = append(om, x)
					}
				}
				p.Omit = om
			}
		}
	}
	return p
}

// ---- suites ----------------------------------------------------------------------------------------------------------------

func c16kBranch(p *C16KP, exp c16kOutcome) string {
	if p.Rule == nil {
		return "norule/" + exp.Err
	}
	act := "updates"
	switch {
	case p.Rule.Nothing:
		act = "nothing"
	case p.Rule.All:
		act = "all"
	}
	tg := map[int]string{-2: "bad-target", -1: "no-target", 0: "pk", 1: "ab", 2: "slug-partial"}[p.Rule.target()]
	res := exp.Err
	if exp.Skip {
		res = "skip"
	} else if exp.Err == "ok" && exp.Old != nil {
		res = "conflict"
		if !p.Rule.Nothing && len(p.Rule.Where) > 0 {
			ok := true
			for _, g := range p.Rule.Where {
				ok = ok && g.holds(exp.Old, exp.Prop)
			}
			res = fmt.Sprint("conflict-guard-", ok)
		}
	} else if exp.Err == "ok" {
		res = "ok"
	}
	return act + "/" + tg + "/" + res
}

func c16RuleSuite(r *Result, rng *rand.Rand, tier string) {
	n := 2500
	if tier == "thorough" {
		n = 40000
	} else if tier == "search" {
		n = 200000
	}
	e := c16kOpen()
	type tied struct {
		p   *C16KP
		got []int
	}
	var ties []tied
	var ops [][]interface{}
	for i := 0; i < n && !expired(); i++ {
		p := c16kGenProg(rng, false)
		exp, got, _ := c16kJudge(r, e, p, true)
		r.Case("rule", canon(p), exp.Old != nil)
		r.H("rule.branch", c16kBranch(p, exp))
		r.H("rule.source", p.Src)
		if p.Rule != nil {
			r.H("rule.guards", fmt.Sprint(len(p.Rule.Where)))
		}
		if i < 2 {
			r.Sample(p)
		}
		// the row tie: one value, one conflicting row, the statement succeeded
		if p.Rule != nil && !exp.Skip && exp.Err == "ok" && exp.Old != nil && len(p.Vals) == 1 && p.Rule.target() != -2 {
			var after []int
			for _, row := range got {
				if row[0] == exp.Old[0] {
					after = row
				}
			}
			if after != nil {
				old, prop := append([]int(nil), exp.Old...), append([]int(nil), exp.Prop...)
				old[c16kUpd], prop[c16kUpd] = 0, 1
				ties = append(ties, tied{p, after})
				ops = append(ops, []interface{}{"c16.oc", c16kKinds(), p.srcJ(), p.Vals[0], p.Rule.J(), old, prop})
			}
		}
	}
	if len(ops) == 0 {
		return
	}
	ans, err := AskLean(ops)
	if err != nil {
		r.Violate(Violation{Kind: "correspondence", Suite: "rule-row", Input: "batch", Observed: err.Error(), Expected: "driver answers"})
		return
	}
	for i, t := range ties {
		var m struct {
			Row []int `json:"row"`
		}
		_ = json.Unmarshal(ans[i], &m)
		r.CorrCompared++
		if len(m.Row) == c16kN {
			m.Row[c16kUpd] = 0
		}
		if canon(m.Row) != canon(t.got) {
			r.Violate(Violation{Kind: "correspondence", Suite: "rule-row", Input: t.p, Observed: t.got, Expected: m.Row,
				Note: "the conflicting row after the real upsert vs Model.Upsert OC.expand + OC.onRow"})
		}
	}
}

func c16ClauseSuite(r *Result, rng *rand.Rand, tier string) {
	n := 3000
	if tier != "quick" {
		n = 30000
	}
	e := c16kOpen()
	dry := e.db.Session(&gorm.Session{DryRun: true})
	type kase struct {
		p   *C16KP
		oc  map[string]interface{}
		sql string
		has bool
	}
	var cases []kase
	var ops [][]interface{}
	for i := 0; i < n && !expired(); i++ {
		p := c16kGenProg(rng, true)
		if p.Rule == nil || p.Src == "sslice" {
			continue
		}
		res := e.exec(dry, p)
		k := kase{p: p}
		if c, ok := res.Statement.Clauses["ON CONFLICT"]; ok {
			if oc, ok := c.Expression.(clause.OnConflict); ok {
				k.oc, k.has = c16kDecClause(oc), true
			}
		}
		full := e.db.Dialector.Explain(res.Statement.SQL.String(), res.Statement.Vars...)
		if j := strings.Index(full, " ON CONFLICT "); j >= 0 {
			k.sql = full[j+len(" ON CONFLICT "):]
			if x := strings.Index(k.sql, " RETURNING"); x >= 0 {
				k.sql = k.sql[:x]
			}
			k.sql = strings.Join(strings.Fields(k.sql), " ")
		}
		cases = append(cases, k)
		ops = append(ops, []interface{}{"c16.oc", c16kKinds(), p.srcJ(), p.Vals[0], p.Rule.J(), nil, nil})
	}
	ans, err := AskLean(ops)
	if err != nil {
		r.Violate(Violation{Kind: "correspondence", Suite: "clause", Input: "batch", Observed: err.Error(), Expected: "driver answers"})
		return
	}
	for i, k := range cases {
		var m struct {
			OC     map[string]interface{} `json:"oc"`
			Render []string               `json:"render"`
		}
		_ = json.Unmarshal(ans[i], &m)
		if ups, ok := m.OC["updates"].([]interface{}); ok {
			m.OC["updates"] = c16kSortUpdates(ups)
		}
		r.CorrCompared++
		r.Case("clause", canon(k.p), len(k.p.Rule.Where)+len(k.p.Rule.TW) > 0 || k.p.Rule.All)
		flags := ""
		for _, f := range []struct {
			on bool
			n  string
		}{{len(k.p.Rule.Cols) > 0, "C"}, {len(k.p.Rule.Where) > 0, "W"}, {len(k.p.Rule.TW) > 0, "T"}, {k.p.Rule.Cons != "", "N"},
			{k.p.Rule.Nothing, "0"}, {len(k.p.Rule.Updates) > 0, "U"}, {k.p.Rule.All, "A"}} {
			if f.on {
				flags += f.n
			}
		}
		r.H("clause.fields_set", flags)
		r.H("clause.source", k.p.Src)
		if !k.has || canon(k.oc) != canon(m.OC) {
			r.Violate(Violation{Kind: "correspondence", Suite: "clause", Input: k.p, Observed: k.oc, Expected: m.OC,
				Note: "clause.OnConflict left on the statement by ConvertToCreateValues vs Model.Upsert OC.expand (Columns, Where, TargetWhere, OnConstraint, DoNothing, DoUpdates, UpdateAll)"})
			continue
		}
		if k.p.Src != "map" { // a map source lists its columns alphabetically: the SET order differs, the object tie above covers it
			if want := c16kExpectSQL(m.Render, k.p.Rule); want != k.sql {
				r.Violate(Violation{Kind: "correspondence", Suite: "clause", Input: k.p, Observed: k.sql, Expected: want,
					Note: "rendered ON CONFLICT clause (DryRun SQL) vs Model.Upsert OC.render laid out as on_conflict.go Build writes it"})
			}
		}
	}
}

func init() {
	register("C16", c16RuleSuite)
	register("C16", c16ClauseSuite)
	replayers["C16/rule"] = func(r *Result, input json.RawMessage) {
		var p C16KP
		if err := json.Unmarshal(input, &p); err != nil {
			r.Note("bad replay input: %v", err)
			return
		}
		c16kJudge(r, c16kOpen(), &p, true)
	}
	replayers["C16/clause"] = func(r *Result, input json.RawMessage) {
		r.Note("clause correspondence cases are re-derived by the suite; see the rule replay for a failing input")
	}
	replayers["C16/rule-row"] = replayers["C16/clause"]
}
