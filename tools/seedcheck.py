#!/usr/bin/env python3
"""tools/seedcheck.py <prop> <mN> [--lab /work/seedlab] [--checks Cxx,Cyy]
Confirms a seeded change from /tmp/mutout/<prop>/<mN> in a scratch worktree of /repo (suite passes with it, its
demonstration fails with it and passes without it), runs the registered quick check(s) against that worktree through
VERIF_REPO, stores patch + demo + meta.json under /verif/seeded/<prop>-<mN>/ and removes the worktree."""
import json, os, re, shutil, subprocess, sys, time
prop, m = sys.argv[1], sys.argv[2]
lab = "/work/seedlab"
checks = [prop]
a = sys.argv[3:]
while a:
    if a[0] == "--lab": lab = a[1]; a = a[2:]
    elif a[0] == "--checks": checks = a[1].split(","); a = a[2:]
    else: a = a[1:]
src = f"/tmp/mutout/{prop}/{m}"
wt = f"/tmp/wt_seed_{prop}_{m}"
tmpd = f"/tmp/wt_seed_{prop}_{m}_tmp"
env = dict(os.environ, GOFLAGS="-mod=mod", GOPROXY="off", GOSUMDB="off", GOTOOLCHAIN="local", TMPDIR=tmpd)
def sh(cmd, cwd=None, timeout=1800, e=env):
    p = subprocess.run(cmd, cwd=cwd, env=e, shell=isinstance(cmd, str), stdout=subprocess.PIPE, stderr=subprocess.STDOUT, text=True, timeout=timeout)
    return p.returncode, p.stdout
meta = {"property": prop, "seed": m, "ran": []}
subprocess.run(["git", "-C", "/repo", "worktree", "remove", "--force", wt], capture_output=True)
shutil.rmtree(wt, ignore_errors=True); shutil.rmtree(tmpd, ignore_errors=True); os.makedirs(tmpd)
rc, out = sh(["git", "-C", "/repo", "worktree", "add", wt, "HEAD"])
try:
    demo_files = []
    ddir = os.path.join(src, "demo")
    for root, _, fs in os.walk(ddir):
        for f in fs:
            if f.endswith("_test.go"):
                demo_files.append(os.path.join(root, f))
    names = []
    for f in demo_files:
        names += re.findall(r"^func (Test\w+)\(", open(f).read(), flags=re.M)
        shutil.copy(f, os.path.join(wt, "tests", "zz_seed_" + os.path.basename(f)))
    runre = "^(" + "|".join(names) + ")$" if names else None
    def run_demo():
        if not runre:
            return None, "no drop-in demo test (see notes.md)"
        return sh(["go", "test", "-vet=off", "-count=1", "-run", runre, "."], cwd=os.path.join(wt, "tests"))
    rc0, o0 = run_demo()
    meta["demo_without_change"] = "pass" if rc0 == 0 else ("n/a" if rc0 is None else "FAIL")
    rc, out = sh(["git", "apply", os.path.join(src, "patch.diff")], cwd=wt)
    meta["patch_applies"] = rc == 0
    rc1, o1 = run_demo()
    meta["demo_with_change"] = "fail" if (rc1 not in (0, None)) else ("n/a" if rc1 is None else "PASS")
    meta["demo_output_with_change"] = (o1 or "")[-800:]
    for f in os.listdir(os.path.join(wt, "tests")):
        if f.startswith("zz_seed_"): os.remove(os.path.join(wt, "tests", f))
    for attempt in range(3):   # gorm's own TestPreparedStmtConcurrentClose panics about once in six runs on the unchanged tree
        rc2, o2 = sh("go build ./... && go test -vet=off -count=1 ./... 2>&1 | tail -12 && cd tests && go test -vet=off -count=1 ./... 2>&1 | tail -5", cwd=wt)
        if rc2 == 0 and "FAIL" not in o2:
            break
    meta["suite_with_change"] = "pass" if rc2 == 0 and "FAIL" not in o2 else "FAIL"
    if meta["suite_with_change"] == "FAIL": meta["suite_output"] = o2[-1500:]
    meta["ran"] += ["demo without change", "git apply patch.diff", "demo with change", "go test ./... (root and tests modules) with change"]
    res = {}
    for c in checks:
        t0 = time.time()
        rc3, o3 = sh(["./check", c, "quick"], cwd=lab, e=dict(env, VERIF_REPO=wt, TMPDIR="/tmp"))
        lines = [l for l in o3.split("\n") if l.startswith(("VIOLATION", "BROKEN", "KNOWN-FINDING")) or " quick seed=" in l]
        res[c] = {"exit": rc3, "detected": rc3 == 1 and any(l.startswith("VIOLATION") for l in lines), "lines": [l[:400] for l in lines][:12], "wall_s": round(time.time() - t0, 1)}
        meta["ran"].append(f"VERIF_REPO=<worktree with patch> ./check {c} quick")
    meta["checks"] = res
finally:
    subprocess.run(["git", "-C", "/repo", "worktree", "remove", "--force", wt], capture_output=True)
    shutil.rmtree(wt, ignore_errors=True); shutil.rmtree(tmpd, ignore_errors=True)
    subprocess.run(["git", "-C", "/repo", "worktree", "prune"], capture_output=True)
dst = f"/verif/seeded/{prop}-{m}"
hist = []
try:
    old = json.load(open(os.path.join(dst, "meta.json")))
    hist = old.get("history", [])
    oc = old.get("checks", {}).get(prop)
    if oc is not None:
        hist.append(f"{old.get('verif_commit', 'earlier')}: {'detected' if oc.get('detected') else 'not detected'}")
except Exception:
    pass
meta["history"] = hist
meta["verif_commit"] = subprocess.run(["git", "-C", lab, "rev-parse", "--short", "HEAD"], capture_output=True, text=True).stdout.strip()
shutil.rmtree(dst, ignore_errors=True); os.makedirs(dst)
shutil.copy(os.path.join(src, "patch.diff"), dst)
if os.path.isdir(ddir): shutil.copytree(ddir, os.path.join(dst, "demo"))
if os.path.exists(os.path.join(src, "notes.md")):
    notes = open(os.path.join(src, "notes.md")).read()
    shutil.copy(os.path.join(src, "notes.md"), dst)
    meta["needs_to_manifest"] = notes[:1500]
meta["breaks_property"] = prop
json.dump(meta, open(os.path.join(dst, "meta.json"), "w"), indent=1)
print(json.dumps({k: meta[k] for k in ("property", "seed", "demo_without_change", "demo_with_change", "suite_with_change")}), {c: (r["detected"], r["exit"]) for c, r in meta["checks"].items()})
