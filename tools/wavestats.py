#!/usr/bin/env python3
"""tools/wavestats.py — per-wave detection statistics of the seeded changes (seeded/*/meta.json), written between the
<!-- WAVE-STATS --> markers of DESIGN.md."""
import json, glob, re, collections
waves = collections.OrderedDict([(1, (1, 3)), (2, (4, 6)), (3, (7, 9)), (4, (10, 12)), (5, (13, 15)), (6, (16, 17))])
res = {}
for f in sorted(glob.glob('/verif/seeded/*-m*/meta.json')):
    m = json.load(open(f)); p = m['property']; n = int(re.search(r'-m(\d+)/', f).group(1))
    w = [k for k, (a, b) in waves.items() if a <= n <= b][0]
    h = m.get('history', [])
    if h:
        h0 = h[0]
        first = h0.get('checks', {}).get(p, {}).get('detected') if isinstance(h0, dict) else ('not detected' not in h0)
    else:
        first = m.get('checks', {}).get(p, {}).get('detected')
    now = m.get('checks', {}).get(p, {}).get('detected')
    applies = m.get('patch_applies', True)
    res.setdefault(w, []).append((f.split('/')[3], bool(first), bool(now), applies))
lines = ["| wave | seeds (m…) | delivered | detected at first trial | detected by the final checks | not detected at the last trial |", "|---|---|---|---|---|---|"]
for w, l in sorted(res.items()):
    a, b = waves[w]
    miss = [x[0] + ("" if x[3] else " (patch no longer applies to the repaired tree)") for x in l if not x[2]]
    lines.append(f"| {w} | m{a}–m{b} | {len(l)} | {sum(x[1] for x in l)} ({100*sum(x[1] for x in l)//len(l)} %) | {sum(x[2] for x in l)} | {', '.join(miss) or '—'} |")
txt = "\n".join(lines)
p = '/verif/DESIGN.md'; s = open(p).read()
a, b = '<!-- WAVE-STATS -->', '<!-- /WAVE-STATS -->'
if a in s:
    s = s[:s.index(a) + len(a)] + "\n" + txt + "\n" + s[s.index(b):]
    open(p, 'w').write(s)
print(txt)
