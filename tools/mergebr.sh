#!/bin/bash
# tools/mergebr.sh <branch> : merge a builder branch with the usual conflict policy
cd /verif
git merge --no-commit --no-ff "$1" 2>&1 | grep -i conflict
for f in $(git diff --name-only --diff-filter=U); do
  case "$f" in
    evidence/*) git checkout --theirs -- "$f";;
    MANIFEST.json|known_findings.json|DESIGN.md|seeded/*) git checkout --ours -- "$f";;
    *) echo "UNRESOLVED $f"; bad=1;;
  esac
done
if [ -n "$bad" ]; then echo "ABORT: unresolved conflicts — fix by hand, then git add -A && git commit"; exit 1; fi
python3 mkmanifest.py > /dev/null
git add -A
git diff --cached --name-only --diff-filter=U
grep -rl '^<<<<<<< ' extract harness lean/GormModel lean/*.lean --include=*.go --include=*.lean --include=*.json 2>/dev/null
exit 0
