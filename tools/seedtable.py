#!/usr/bin/env python3
"""Regenerates the seed table in DESIGN.md (between <!-- SEED-TABLE --> and <!-- /SEED-TABLE -->) from seeded/*/meta.json.
A seed that was missed first and detected after strengthening keeps its history in meta.json ("history")."""
import json, os, re, glob
ROOT = os.path.dirname(os.path.dirname(os.path.abspath(__file__)))
summ = json.load(open(os.path.join(ROOT, "seeded", "summaries.json"))) if os.path.exists(os.path.join(ROOT, "seeded", "summaries.json")) else {}
rows = []
for d in sorted(glob.glob(os.path.join(ROOT, "seeded", "*"))):
    mp = os.path.join(d, "meta.json")
    if not os.path.exists(mp): continue
    m = json.load(open(mp))
    prop = m["property"]; seed = m["seed"]
    diff = open(os.path.join(d, "patch.diff")).read() if os.path.exists(os.path.join(d, "patch.diff")) else ""
    files = sorted(set(re.findall(r"^\+\+\+ b/(\S+)", diff, flags=re.M)))
    ck = m.get("checks", {}).get(prop, {})
    det = ck.get("detected")
    comp = []
    for l in ck.get("lines", []):
        if l.startswith("BROKEN"):
            if '"obligation"' in l or '"lean-build"' in l: comp.append("P")
            if '"correspondence"' in l: comp.append("C")
        if l.startswith("VIOLATION") and "no-failing-input-found" not in l: comp.append("E")
    comp = "+".join(sorted(set(comp), key="PCE".index)) or ("?" if det else "—")
    hist = "; ".join(m.get("history", []))
    what = (summ.get(f"{prop}-{seed}") or m.get("summary") or "").strip()
    rows.append(f"| {prop}-{seed} | {', '.join(files)} | {what} | {comp if det else '—'} | {hist} |")
table = "| seed | files touched | what it breaks / needs | caught by | history |\n|---|---|---|---|---|\n" + "\n".join(rows)
p = os.path.join(ROOT, "DESIGN.md")
s = open(p).read()
if "<!-- /SEED-TABLE -->" in s:
    s = re.sub(r"<!-- SEED-TABLE -->.*<!-- /SEED-TABLE -->", "<!-- SEED-TABLE -->\n" + table + "\n<!-- /SEED-TABLE -->", s, flags=re.S)
else:
    s = s.replace("<!-- SEED-TABLE -->", "<!-- SEED-TABLE -->\n" + table + "\n<!-- /SEED-TABLE -->")
open(p, "w").write(s)
print(len(rows), "seeds")
